#!/usr/bin/env python3
"""Regenerates MANIFEST.json from the table below (kept in one place so it stays valid)."""
import json, os
HERE = os.path.dirname(os.path.abspath(__file__))
PY = '/venv/bin/python'

CHECKS = {
 'C18': dict(engine='contsim', level='exploration', ref='DESIGN.md §6 C18',
   technique='deterministic simulation: seeded operation histories with injected veto/raise faults, judged step by step against a list-without-duplicates reference model; ddmin-minimised replay',
   text='Exhaustive enumeration of all operation histories of depth 3 (thorough 4) over a 46-50 operation alphabet per container, plus seeded search over operation histories (<=40 ops, 6-value universe) on qset, linqset and Predicates with vetoes injected at the containers\' own extension points; every operation is judged against a list-without-duplicates model (accepted => equal state; rejected single-element op => nothing changed; rejected bulk op => still a consistent ordered set). Beyond the enumerated depth it is sampling: a clean batch is evidence, not proof.',
   note='Trusts the list model in sim/contsim.py and CPython list semantics; Predicates cannot be subclassed (read-only metaclass) so only its own conflict veto is exercised.'),
}

CHECKS.update({
 'C03': dict(engine='proofsim', level='exploration', ref='DESIGN.md §6 C03',
   technique='deterministic simulation: seeded search over arguments x logics x option combinations x tie-break schedules x cache sizes, stepped under a lost-tick progress monitor; oracle = exhaustive truth-table enumeration in an independent reference semantics; root-cause diagnosis of wrong verdicts',
   text='Seeded search over propositional arguments in all 57 logics under controlled tie-break order, options and cache size, no limits. Each verdict is compared with complete truth-table enumeration in R1, so soundness and completeness are decided exactly per explored argument; termination is monitored by the sound lost-tick criterion (step-budget overruns are only counted). Half of the runs sweep a systematic enumeration of every node shape ([negated] operator over literals / double negations) in every small literal context: quick = the whole enumeration in one logic per distinct set of truth-functional rule implementations, thorough = in all 57 logics; the other half samples arguments, schedules and options.',
   note='Trusts R1 (sim/ref/refsem.py) as transcription of the documented tables; known FDE-family evaluator discrepancy does not matter here because R1, not the library evaluator, is the oracle.'),
 'C16': dict(engine='proofsim', level='exploration', ref='DESIGN.md §6 C16',
   technique='deterministic simulation: invariant monitor over every prefix of schedule-dependent step histories, shadow tableau rebuilt from public events and step() return values, step-limit faults',
   text='Every step of every explored run (all logics, fragments, options, seeded tie-break orders, step-limit cuts) is checked against a shadow tableau built only from the eight public events and step() return values: trunk content, grow-only branches, closed never extended, open view, fork prefix, one history entry per step, stat() step numbers, events exactly once; after finish the tree and stats are recomputed from the branches.',
   note='Trusts the monitor sim/checks/c16.py; stat() entries are read from the branch a node was really added on (copies only carry default-valued entries).'),
 'C17': dict(engine='proofsim', level='fault_enumeration', ref='DESIGN.md §6 C17',
   technique='deterministic simulation with fault injection: virtual clock with seeded deadline jumps and stalls, enumeration of step-limit cut points against a fault-free twin, lifecycle call histories against a reference state machine',
   text='For each sampled proof (all logics, seeded schedule/options) a fault-free twin fixes natural length n and verdict; then every step-limit cut 1..n+1 (thorough; a seeded subset in quick) plus None/0/-1, deadline faults placed at seeded clock-read indices on a virtual clock (first step, mid, last step, model generation, after completion, stalled clock, ticking clock), and a lifecycle history of API calls (also on tableaux started from a hand-made branch, without a trunk) are injected and judged: bounded steps, unchanged proof when the limit does not bite, premature/no verdict/tree rules, timeout raised neither early nor late relative to the public build timer, finished tableaux inert, setters and rule-set mutations locked after start.',
   note='Clock is monotone; deadline positions and lifecycle histories are sampled, cut points are enumerated per sampled proof (n<=60).'),
 'C01': dict(engine='proofsim', level='exploration', ref='DESIGN.md §6 C01',
   technique='deterministic simulation: seeded search over arguments x logics x option combinations x drive modes x tie-break schedules; oracle = bounded countermodel search in an independent reference semantics plus cross-schedule witnesses (models the prover produced on another schedule, re-evaluated by the reference); witness-aware root-cause diagnosis',
   text='Every explored run that completes with all branches closed is confronted with (a) R1\'s bounded countermodel search (exact truth tables on the propositional fragment; frames <=2 worlds exhaustive, 3 sampled; argument constants +1) and (b) models produced by the prover itself for the same argument under other schedules/options, re-verified by R1. An alarm needs a re-verified countermodel. Every 3rd run sweeps a systematic enumeration (every quantifier node shape in 23 small first-order contexts, one logic per rule-implementation group in quick / every quantified logic in thorough) and a propositional scale sweep (1..20 copies of one letter against n-1/n/n+1 distinct letters, invalid by construction). Otherwise arguments, schedules and options are sampled; countermodels beyond the bounds are missed.',
   note='Trusts R1 (cross-examined against the library evaluator by C08 on every logic: they agree everywhere except the recorded FDE-family discrepancy); per-world classical identity.'),
 'C02': dict(engine='proofsim', level='exploration', ref='DESIGN.md §6 C02',
   technique='deterministic simulation: seeded search over arguments x logics x options x tie-break schedules; every open limit-free branch of every completed tableau is judged by the library\'s own model builder and evaluator (node-by-node satisfaction, access pairs, countermodel test), with R1 consulted only to attribute FDE-family failures to the evaluator',
   text='For every open branch without a quit flag of every completed explored tableau (all logics, fragments, options, seeded tie-break orders, cache sizes) the branch\'s own model must satisfy every node at its world, contain every access pair and be a countermodel by the library\'s own test, without raising. Saturation gaps show up as unsatisfied nodes. Sampling only.',
   note='Oracle is the library evaluator as the property states; C08 pins that evaluator to R1.'),
 'C08': dict(engine='modelsim', level='exploration', ref='DESIGN.md §6 C08',
   technique='deterministic simulation: seeded model-API call histories (insertion orders, repeated facts, negated literals) mirrored order-free into an independent reference semantics; differential evaluation of ~50 sentences per model at every world with innermost-clause localisation',
   text='Seeded histories of set-value / add-access calls from a hidden consistent ground truth, in all 57 logics; after finish() the access relation must be the required closure (serial superset for D), identity/existence completion must make identity an equivalence respected by every extension at every world, and value_of must equal R1 on sampled sentences (all operators, quantifiers, modal operators, opaques) at every world. Sampling of models, orders and sentences.',
   note='Trusts R1; a disagreement is localised to the innermost clause and adjudicated against doc/logics before being listed.'),
 'C09': dict(engine='proofsim', level='exploration', ref='DESIGN.md §6 C09',
   technique='deterministic simulation: families of independently scheduled runs of one argument (8 lexical-hash salts in fresh interpreters x option combinations x drive modes x seeded tie-break orders x premise permutations/duplications), verdict classes compared within and across workers over the recorded history; drive modes compared under one schedule',
   text='Each sampled (logic, argument) is proved under every lexical salt and, per salt, several configurations from {group optim} x {rank optim} x {build, step loop, stepiter} x tie-break seeds x premise orders/duplications. Alarm iff a family holds both a valid and a refuted outcome, a member raises, or the three drive modes differ under one schedule. Premise arrangements (original, reversed, rotated, duplicated: one premise rotating with the salt, or every premise twice) are systematic per run; families of modal logics include identity-across-worlds, modal-interplay and boxed-universal-at-sibling-worlds templates with fixed shares. Limit-only outcomes are excluded as stated.',
   note='A valid/refuted pair cannot both be right, so the alarm is never spurious; R1 is used only to name the side and rule at fault.'),
 'C10': dict(engine='proofsim', level='exploration', ref='DESIGN.md §6 C10',
   technique='deterministic simulation: families of independently scheduled runs of related arguments (conclusion-among-premises, added premise, injective renamings of letters/constants/predicates/bound variables), laws checked over the recorded outcomes',
   text='For sampled base arguments in all logics (propositional, modal, first-order with identity): reflexivity (never refuted, valid when a verdict is reached), monotonicity (base valid => extended never refuted) and renaming invariance (never valid on one side and refuted on the other), each member under 2 independent seeded configurations; half of the runs also add 3-8 premises at once that repeat one subformula of the argument.',
   note='Limit-only outcomes never compared; R1 only attributes blame.'),
 'C11': dict(engine='proofsim', level='exploration', ref='DESIGN.md §6 C11',
   technique='deterministic simulation: pairs of independently scheduled runs of one argument in a declared (weaker, stronger) logic pair read from the registry, floor share per declared pair plus sampled transitive pairs',
   text='For every declared extension pair (98 at this commit, each with a floor share; transitive pairs sampled) arguments in the weaker logic\'s vocabulary are proved in both logics under independent seeded configurations; a valid verdict in the weaker logic forbids a limit-free refutation in the stronger one. R1 says which side is wrong. Every 6th run sweeps a systematic family (all unary modal chains up to length 6/7 x 3 kernels x 2 conclusions) on D -> T, the one declared pair whose rule sets are not nested.',
   note='Arguments are sampled and biased to ones the weaker logic proves (mutated library examples).'),
 'C05': dict(engine='branchsim+proofsim', level='exploration', ref='DESIGN.md §6 C05',
   technique='deterministic simulation: seeded arrival histories of literal constraint nodes on a rule-only tableau (orders, forks between arrivals, duplicate nodes, seeded hash order) judged by satisfiability in an independent reference semantics; closure-event monitor on whole proofs',
   text='Seeded subsets of the literal constraints over one letter / predication / opaque sentence (and identity / existence literals in the classical family) arrive in seeded orders, sometimes split across a fork, in every logic; closed <=> R1 finds no satisfying value, and the model read off an open set must satisfy it. In whole proofs every closure event must be on an R1-unsatisfiable target and completed open branches must carry satisfiable literals. The (base sentence x subset of literal constraints at one world) space of every logic is enumerated completely by one quick batch; arrival orders, forks, interleaved step() calls, padding and proofs are sampled.',
   note='Forks are only generated from branches that cannot already close (a closable branch is never expanded by the prover); a 60-step limit bounds the serial rule on trunk-less tableaux.'),
 'C06': dict(engine='branchsim+proofsim', level='exploration', ref='DESIGN.md §6 C06',
   technique='deterministic simulation: seeded append / access / copy / fork histories on Branch judged after every operation by the symbols actually occurring on each live branch (R5); step monitor on whole proofs for witness-introducing rules',
   text='Exhaustive enumeration of all branch histories of depth 4 (thorough 5) over a 19-operation alphabet, plus seeded histories (<=10 ops, 7-constant pool with subscripts, worlds in sentence and access nodes, copies and forks extended independently) with the freshness invariant checked on every live branch after every operation; in whole proofs (biased to quantifier/modal/serial witnesses, constants in mixed first-appearance order) every constant or world introduced by a ticking quantifier/modal rule or the serial rule must be new to the branch.',
   note='Longer histories and proofs are sampled.'),
 'C13': dict(engine='parsesim', level='exploration', ref='DESIGN.md §6 C13',
   technique='deterministic simulation: seeded parse histories on long-lived parsers with input faults (truncate, flip, insert, foreign characters, delete, duplicate span, stray parenthesis, swapped variable) and sliced exhaustive short strings; per-parse oracle = exception type, deterministic trace-event budget, structural well-formedness walker, fresh twin parser with the prior declarations',
   text='Long-lived Polish and standard parsers (auto_preds, drop_parens, empty / declared / frozen stores) receive histories of valid, fault-mutated, random and exhaustively short inputs; each parse must return a closed, non-vacuous, arity-correct sentence or raise ParseError within a deterministic event budget, and must equal the result of a fresh twin parser carrying the declarations as they were before the call. Fault kinds include end of input at every instant (all proper prefixes of a short input), very deep nesting swept finely around the interpreter recursion limit, very long subscripts, and inputs composed from earlier inputs of the same history. Inputs and histories are sampled (strings <= 3 characters are enumerated across the runs of a batch).',
   note='The twin defines history-independence exactly as the statement does (same string, same declarations).'),
 'C14': dict(engine='lexsim', level='exploration', ref='DESIGN.md §6 C14',
   technique='deterministic simulation: seeded construction / rebuild / copy / pickle / comparison / mutation-attempt histories under per-run cache sizes with eviction faults, judged against structural tuples and against a fault-free twin execution (large cache) of the same history',
   text='Histories of 30-160 operations over all nine lexical types and Argument (system predicates over-represented; open, vacuous and re-bound quantified items included) run under cache sizes 1..1000 with eviction faults placed at random and between taking an ident/spec and rebuilding from it; equality <=> structural identity, hash, one total order with type rank first, rebuild/copy/pickle equality (the second construction of an argument carries a title) and immutability are checked per operation, an exception escaping from library code during an operation the model takes to be valid is a violation, and the whole observation log must equal that of the large-cache twin.',
   note='Cache size 0 is unsupported by the package (import fails) and not judged.'),
 'C19': dict(engine='proofsim', level='exploration', ref='DESIGN.md §6 C19',
   technique='deterministic simulation supplies the population: tableaux finished under seeded schedules and cut short at seeded step limits; long-lived writers for every registered format x notation x seeded options are all constructed first and render in seeded interleavings, again after a virtual wall-clock jump, and are compared with fresh writers; the text rendering is parsed back and compared token by token with the branches',
   text='Rendering is a pure function of a finished tableau; the simulation supplies the population the property quantifies over (completed valid/invalid tableaux and tableaux cut short at seeded step limits, with access, quit-flag and closure nodes in every logic family). For each: all formats x notations x writer options (class options as tuple, list, set or string) render without raising, identically by a long-lived writer (before and after other writers were constructed and a wall-clock jump) and by a fresh one; the text output is read back into structures whose root-to-leaf token lists must equal the branch tokens, with exactly one closure mark on closed branches.',
   note='The written form of a sentence is taken from the writer\'s own LexWriter (C12 territory); sampling only.'),
 'C20': dict(engine='modelsim+proofsim', level='exploration', ref='DESIGN.md §6 C20',
   technique='deterministic simulation: models produced by seeded model-API call histories and by open branches of seeded proof runs; the exported description is compared entry by entry with the model\'s own evaluator',
   text='For models built by seeded API histories (insertion orders, repeated facts, an export preview before finish(), conflicting calls that the model refuses while the caller carries on) and models read from open branches of seeded proof runs, in all logics: exported worlds and access pairs equal the model\'s, every listed letter/opaque value equals value_of at that world and every known one is listed, extension membership <=> T/B, anti-extension membership => F/B (and <= for explicitly interpreted tuples), two calls equal, sequences sorted.',
   note='Anti-extension exactness is demanded for explicitly interpreted tuples only (see evidence assumptions).'),
})

NOT_APPLICABLE = {
 'C04': 'expanding one node on a fresh one-node branch is a pure finite function of (logic, node shape, component values): no schedule, clock, fault or history enters; exhaustive case enumeration (a different technique family) is the right instrument (DESIGN.md §7)',
 'C07': 'truth tables and designated sets are constants of the code compared with literature tables; nothing to schedule, inject or replay (DESIGN.md §7)',
 'C12': 'write-then-parse is a pure function of sentence, notation and writer options on freshly constructed parsers; no state, time or fault (DESIGN.md §7)',
 'C15': 'substitute/unquantify/negative and the derived attribute sets are pure functions of immutable values (per-item memoisation only); the only state underneath, the construction cache, is owned by C14 (DESIGN.md §7)',
}

def main():
    checks = []
    for cid, c in sorted(CHECKS.items()):
        checks.append(dict(
            property_id=cid,
            quick_cmd='cd /verif && %s -m sim check %s --tier quick' % (PY, cid),
            thorough_cmd='cd /verif && %s -m sim check %s --tier thorough' % (PY, cid),
            evidence_file='/verif/evidence/%s.json' % cid,
            replay_cmd_template='cd /verif && %s -m sim replay {path}' % PY,
            engine=c['engine'],
            level_claimed=dict(category=c['level'], text=c['text'], design_ref=c['ref']),
            level_note=c['note'],
            technique=c['technique']))
    engines = {}
    for cid, c in CHECKS.items():
        for e in c['engine'].split('+'):
            engines.setdefault(e.strip(), []).append(cid)
    claimed = set(CHECKS)
    na = [dict(property_id=k, reason=v) for k, v in sorted(NOT_APPLICABLE.items())]
    allids = ['C%02d' % i for i in range(1, 21)]
    for cid in allids:
        if cid not in claimed and cid not in NOT_APPLICABLE:
            na.append(dict(property_id=cid, reason='check not built yet in this revision of /verif (claimed in DESIGN.md; listed here so the manifest stays truthful until its check is registered)'))
    man = dict(
        version=1,
        setup_cmd='cd /verif && %s -m sim setup' % PY,
        hooks=dict(
            guard='PYTABLEAUX_VERIF',
            enable='pure Python, nothing to build: workers are started with PYTABLEAUX_VERIF=1 PYTHONHASHSEED=0 PYTABLEAUX_VERIF_LEXSALT=<salt> PYTHONPATH=/repo:/verif and import /repo\'s working tree directly',
            baseline_off_cmd='cd /repo && env -u PYTABLEAUX_VERIF /venv/bin/python -m pytest -ra -q -p no:cacheprovider --timeout=900 --continue-on-collection-errors',
            source_commits=['ee340b6'],
            add_only=True),
        engines=[dict(name=e, path='/verif/sim/%s.py' % e, serves_properties=sorted(ps),
                      kind_free_text='seeded deterministic simulation engine (see DESIGN.md §5)') for e, ps in sorted(engines.items())],
        checks=checks,
        notes='Deterministic simulation with fault injection; one integer (VERIF_SEED) decides every run. Exit 0 held / 1 VIOLATION / 2 harness error. Known findings: /verif/known_findings.json.',
        not_applicable=sorted(na, key=lambda d: d['property_id']))
    with open(os.path.join(HERE, 'MANIFEST.json'), 'w') as f:
        json.dump(man, f, indent=1)
    print('MANIFEST.json: %d checks, %d not_applicable' % (len(checks), len(na)))

if __name__ == '__main__':
    main()
