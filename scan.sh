#!/bin/bash
# usage: scan.sh <CHECK> <runs> <seed>...   -- key scan without minimisation (dev tool)
chk=$1; runs=$2; shift 2
for s in "$@"; do VERIF_SEED=$s VERIF_RUNS=$runs /venv/bin/python -m sim check $chk --tier quick --nomin 2>&1 | grep -v WARNING | grep "violation\|quick:\|KNOWN\|HARNESS" | cut -c1-400; done
