#!/usr/bin/env python3
"""Validate seeded breaking changes under /verif/seeded/<name>/ (patch.diff, demo.py, meta.json):
demo passes on the clean tree, fails with the patch; then run the checks named in meta['checks']
(quick tier) with the patch applied and report which catch it. Usage: tools_seeded.py [name ...]"""
import glob, json, os, subprocess, sys, time
HERE = os.path.dirname(os.path.abspath(__file__))
SRC = '/repo'
REPO = os.environ.get('VERIF_SCRATCH', '/tmp/verif_scratch_repo')     # scratch worktree: background runs keep using /repo undisturbed
def sh(*a, **kw):
    return subprocess.run(a, capture_output=True, text=True, **kw)
def demo(d):
    env = dict(os.environ, PYTHONPATH=REPO)
    env.pop('PYTABLEAUX_VERIF', None)
    p = sh('/venv/bin/python', os.path.join(d, 'demo.py'), cwd=REPO, env=env)
    return p.returncode, (p.stdout + p.stderr)[-300:]
def main(names):
    sh('git', '-C', SRC, 'worktree', 'remove', '--force', REPO)
    r = sh('git', '-C', SRC, 'worktree', 'add', '--detach', REPO, 'HEAD')
    assert r.returncode == 0, r.stderr
    try:
        return _main(names)
    finally:
        sh('git', '-C', SRC, 'worktree', 'remove', '--force', REPO)
        sh('git', '-C', SRC, 'worktree', 'prune')

def _main(names):
    out = []
    for d in sorted(glob.glob(os.path.join(HERE, 'seeded', '*'))):
        name = os.path.basename(d)
        if names and name not in names:
            continue
        meta = json.load(open(os.path.join(d, 'meta.json')))
        rc0, _ = demo(d)
        r = sh('git', '-C', REPO, 'apply', os.path.join(d, 'patch.diff'))
        if r.returncode:
            print('%-10s APPLY FAILED %s' % (name, r.stderr[:200])); continue
        try:
            rc1, txt = demo(d)
            line = '%-10s demo clean=%s patched=%s' % (name, rc0, rc1)
            for chk in meta.get('checks', [meta['property']]):
                t = time.time()
                p = sh('/venv/bin/python', '-m', 'sim', 'check', chk, '--tier', 'quick', cwd=HERE, env=dict(os.environ, VERIF_REPO=REPO))
                keys = [l.split('key=')[1].split(' ::')[0] for l in p.stdout.splitlines() if 'violation clause=' in l]
                status = {0: 'MISSED', 1: 'caught', 2: 'harness-error'}.get(p.returncode, 'exit%d' % p.returncode)
                line += ' | %s %s %.0fs %s' % (chk, status, time.time() - t, keys[:2])
                out.append((name, chk, status))
            print(line, flush=True)
        finally:
            sh('git', '-C', REPO, 'checkout', '--', '.')
    return 0
if __name__ == '__main__':
    sys.exit(main(sys.argv[1:]))
