#!/bin/bash
# usage: [CHECKS='C03 C11'] soak.sh <tier> <seed>... -- run every registered check once per seed; print one line per (check, seed)
tier=$1; shift
for s in "$@"; do
  for c in ${CHECKS:-C01 C02 C03 C05 C06 C08 C09 C10 C11 C13 C14 C16 C17 C18 C19 C20}; do
    out=$(VERIF_SEED=$s /venv/bin/python -m sim check $c --tier $tier 2>&1 | grep -v WARNING)
    rc=$?
    line=$(echo "$out" | grep "^\[sim\] $c $tier:" | tail -1)
    echo "seed=$s $c rc=$(echo "$out" | grep -c '^VIOLATION') harness=$(echo "$out" | grep -c 'HARNESS ERROR') :: $line"
    echo "$out" | grep "violation clause" | cut -c1-300
  done
done
