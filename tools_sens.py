#!/usr/bin/env python3
"""Sensitivity catalogue: apply each mutant in /verif/mutants to /repo, run the named check's
quick tier, expect exit 1 (VIOLATION), then restore /repo. Usage: tools_sens.py [name ...]"""
import glob, os, subprocess, sys, time
HERE = os.path.dirname(os.path.abspath(__file__))
SRC = '/repo'
REPO = '/tmp/verif_scratch_repo'     # scratch worktree: background runs keep using /repo undisturbed
def sh(*a, **kw):
    return subprocess.run(a, capture_output=True, text=True, **kw)
def main(names):
    sh('git', '-C', SRC, 'worktree', 'remove', '--force', REPO)
    r = sh('git', '-C', SRC, 'worktree', 'add', '--detach', REPO, 'HEAD')
    assert r.returncode == 0, r.stderr
    try:
        return _main(names)
    finally:
        sh('git', '-C', SRC, 'worktree', 'remove', '--force', REPO)
        sh('git', '-C', SRC, 'worktree', 'prune')

def _main(names):
    diffs = sorted(glob.glob(os.path.join(HERE, 'mutants', '*.diff')))
    res = []
    for d in diffs:
        name = os.path.basename(d)[:-5]
        if names and name not in names:
            continue
        checks = open(d[:-5] + '.check').read().split()
        r = sh('git', '-C', REPO, 'apply', d)
        if r.returncode:
            print('%-40s APPLY FAILED %s' % (name, r.stderr.strip()[:200])); res.append((name, 'apply-failed')); continue
        try:
            for chk in checks:
                t = time.time()
                env = dict(os.environ, VERIF_REPO=REPO)
                p = sh('/venv/bin/python', '-m', 'sim', 'check', chk, '--tier', 'quick', cwd=HERE, env=env)
                keys = [l.split('key=')[1].split(' ::')[0] for l in p.stdout.splitlines() if 'violation clause=' in l]
                status = {0: 'MISSED', 1: 'caught', 2: 'harness-error'}.get(p.returncode, 'exit%d' % p.returncode)
                print('%-40s %s %-13s %5.1fs %s' % (name, chk, status, time.time() - t, keys[:3]), flush=True)
                if p.returncode == 2:
                    print(p.stdout[-1500:])
                res.append((name, chk, status))
        finally:
            sh('git', '-C', REPO, 'checkout', '--', '.')
    bad = [r for r in res if r[-1] != 'caught']
    print('%d mutant runs, %d not caught' % (len(res), len(bad)))
    return 1 if bad else 0
if __name__ == '__main__':
    sys.exit(main(sys.argv[1:]))
