"""Workloads for proofsim: logic choice, argument generation (swarm), options, schedules."""
from __future__ import annotations

from pytableaux import examples
from pytableaux.logics import registry

from . import lexgen
from .ref import refsem

def all_logics():
    return sorted(m.rsplit('.', 1)[1].upper() for m in registry.all())

LOGICS = all_logics()

_EXAMPLES = None
def example_args():
    global _EXAMPLES
    if _EXAMPLES is None:
        _EXAMPLES = [(k,) + tuple(lexgen.arg_to_ast(a)) for k, a in sorted(examples.arguments.items())]
    return _EXAMPLES

def extension_pairs():
    "Declared (weaker, stronger) pairs: stronger.Meta.extension_of lists weaker."
    out = []
    for name in LOGICS:
        L = registry(name)
        for weaker in sorted(L.Meta.extension_of):
            out.append((weaker.upper(), name))
    return out

def pick_logic(rng, index, salts=1, logics=None):
    logics = logics or LOGICS
    # stratified: every logic gets a floor share, independent of the salt cycle
    return logics[(index // salts) % len(logics)]

def gen_opts(rng, models=None):
    o = dict(is_group_optim=rng.random() < 0.5, is_rank_optim=rng.random() < 0.5)
    if models is None:
        models = rng.random() < 0.5
    o['is_build_models'] = models
    return o

ALL_OPT_COMBOS = [dict(is_group_optim=g, is_rank_optim=r) for g in (True, False) for r in (True, False)]

def profile_for(rng, logic, fragment=None):
    """fragment: None = whatever the logic interprets (plus rarely opaque material),
    'prop' = truth-functional only, 'modal', 'fo'."""
    sem = refsem.get(logic)
    if fragment == 'prop':
        return lexgen.Profile(rng)
    modal = sem.modal and (fragment == 'modal' or (fragment is None and rng.random() < 0.75))
    quant = sem.quantified and (fragment == 'fo' or (fragment is None and rng.random() < 0.35))
    if fragment is None and not sem.modal and rng.random() < 0.06:
        modal = True     # opaque modal sentences in a non-modal logic
    preds = quant or (fragment is None and rng.random() < 0.25)
    identity = sem.classical and preds and rng.random() < 0.4
    return lexgen.Profile(rng, modal=modal, quant=quant, preds=preds, identity=identity)

def mutate(rng, prems, conc, prof):
    "Small random edit of an example argument."
    prems = list(prems)
    r = rng.random()
    if r < 0.25 and prems:
        prems.pop(rng.randrange(len(prems)))
    elif r < 0.5:
        prems.append(lexgen.gen_sentence(rng, prof, depth=rng.choice((0, 1, 2))))
    elif r < 0.7:
        conc = ('O', 'Negation', (conc,))
    elif r < 0.85 and prems:
        j = rng.randrange(len(prems))
        prems[j], conc = conc, prems[j]
    else:
        op = rng.choice(('Conjunction', 'Disjunction', 'Conditional', 'MaterialConditional'))
        conc = ('O', op, (conc, lexgen.gen_sentence(rng, prof, depth=1)))
    return prems, conc

def gen_case(rng, logic, fragment=None, p_example=0.3):
    prof = profile_for(rng, logic, fragment)
    sem = refsem.get(logic)
    if rng.random() < p_example:
        exs = example_args()
        for _ in range(8):
            name, prems, conc = rng.choice(exs)
            sents = list(prems) + [conc]
            if fragment == 'prop' and not all(refsem.is_propositional(s) and not any(x[0] == 'P' for x in refsem.walk(s)) for s in sents):
                continue
            if not sem.modal and any(refsem.has_modal(s) for s in sents) and rng.random() < 0.9:
                continue
            if not sem.quantified and any(refsem.has_quant(s) for s in sents) and rng.random() < 0.9:
                continue
            if rng.random() < 0.6:
                prems, conc = mutate(rng, prems, conc, prof)
            return list(prems), conc
    return lexgen.gen_argument(rng, prof)

def fragment_of(prems, conc):
    sents = list(prems) + [conc]
    m = any(refsem.has_modal(s) for s in sents)
    q = any(refsem.has_quant(s) for s in sents)
    p = any(x[0] == 'P' for s in sents for x in refsem.walk(s))
    return ('modal' if m else '') + ('fo' if q else ('pred' if p else '')) or 'prop'
