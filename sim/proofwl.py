"""Workloads for proofsim: logic choice, argument generation (swarm), options, schedules."""
from __future__ import annotations

from pytableaux import examples
from pytableaux.logics import registry

from . import lexgen
from .ref import refsem

def all_logics():
    return sorted(m.rsplit('.', 1)[1].upper() for m in registry.all())

LOGICS = all_logics()

_EXAMPLES = None
def example_args():
    global _EXAMPLES
    if _EXAMPLES is None:
        _EXAMPLES = [(k,) + tuple(lexgen.arg_to_ast(a)) for k, a in sorted(examples.arguments.items())]
    return _EXAMPLES

def extension_pairs():
    "Declared (weaker, stronger) pairs: stronger.Meta.extension_of lists weaker."
    out = []
    for name in LOGICS:
        L = registry(name)
        for weaker in sorted(L.Meta.extension_of):
            out.append((weaker.upper(), name))
    return out

# logics that define rules of their own which few or no other logics inherit get extra weight
HEAVY = ('D', 'T', 'S4', 'S5', 'K', 'CFOL', 'CPL', 'FDE', 'K3', 'LP', 'KFDE', 'S4GO', 'K3WQ', 'KK3WQ', 'MH', 'NH', 'GO', 'RM3', 'L3', 'G3', 'P3', 'K3W', 'B3E')
_WEIGHTED = None
def weighted_logics():
    global _WEIGHTED
    if _WEIGHTED is None:
        w = list(LOGICS)
        for name in HEAVY:
            if name in LOGICS:
                w.extend([name] * (3 if name in ('D', 'T', 'S4', 'S5', 'K', 'CFOL') else 1))
        # deterministic interleaving so that a short prefix of the cycle already covers every logic
        _WEIGHTED = sorted(w, key=lambda n: (w.index(n) * 7919) % 1009) if False else w
    return _WEIGHTED

def pick_logic(rng, index, salts=1, logics=None):
    logics = logics or weighted_logics()
    # stratified: every logic gets a floor share, independent of the salt cycle
    return logics[(index // salts) % len(logics)]

def gen_opts(rng, models=None):
    o = dict(is_group_optim=rng.random() < 0.5, is_rank_optim=rng.random() < 0.5)
    if models is None:
        models = rng.random() < 0.5
    o['is_build_models'] = models
    return o

ALL_OPT_COMBOS = [dict(is_group_optim=g, is_rank_optim=r) for g in (True, False) for r in (True, False)]

def profile_for(rng, logic, fragment=None):
    """fragment: None = whatever the logic interprets (plus rarely opaque material),
    'prop' = truth-functional only, 'modal', 'fo'."""
    sem = refsem.get(logic)
    if fragment == 'prop':
        return lexgen.Profile(rng)
    modal = sem.modal and (fragment == 'modal' or (fragment is None and rng.random() < 0.75))
    quant = sem.quantified and (fragment == 'fo' or (fragment is None and rng.random() < 0.35))
    if fragment is None and not sem.modal and rng.random() < 0.06:
        modal = True     # opaque modal sentences in a non-modal logic
    preds = quant or (fragment is None and rng.random() < 0.25)
    identity = sem.classical and preds and rng.random() < 0.4
    return lexgen.Profile(rng, modal=modal, quant=quant, preds=preds, identity=identity)

def mutate(rng, prems, conc, prof):
    "Small random edit of an example argument."
    prems = list(prems)
    r = rng.random()
    if r < 0.25 and prems:
        prems.pop(rng.randrange(len(prems)))
    elif r < 0.5:
        prems.append(lexgen.gen_sentence(rng, prof, depth=rng.choice((0, 1, 2))))
    elif r < 0.7:
        conc = ('O', 'Negation', (conc,))
    elif r < 0.85 and prems:
        j = rng.randrange(len(prems))
        prems[j], conc = conc, prems[j]
    else:
        op = rng.choice(('Conjunction', 'Disjunction', 'Conditional', 'MaterialConditional'))
        conc = ('O', op, (conc, lexgen.gen_sentence(rng, prof, depth=1)))
    return prems, conc

def modal_template(rng, natoms=2):
    "Arguments whose proofs create several worlds with interacting box-type nodes."
    def lit():
        a = ('A', rng.randrange(natoms), 0)
        return a if rng.random() < 0.6 else ('O', 'Negation', (a,))
    def mlit():
        return ('O', rng.choice(('Possibility', 'Necessity')), (lit(),))
    def chain():
        s = lit()
        r = rng.random()
        if r < 0.25:
            s = ('O', rng.choice(('Conjunction', 'Disjunction', 'MaterialConditional')), (s, lit()))
        elif r < 0.45:
            # sibling worlds carrying the same possibility under conflicting necessities
            s = ('O', rng.choice(('Conjunction', 'Conjunction', 'Disjunction')), (mlit(), mlit()))
        for _ in range(rng.choice((1, 2, 2, 3))):
            s = ('O', rng.choice(('Possibility', 'Necessity')), (s,))
        if rng.random() < 0.2:
            s = ('O', 'Negation', (s,))
        return s
    prems = [chain() for _ in range(rng.choice((1, 2, 2, 3)))]
    conc = chain() if rng.random() < 0.6 else lit()
    return prems, conc

def fo_template(rng, identity=False):
    "Quantified premises that mention constants of their own, constants arriving in mixed orders."
    consts = [('c', i, 0) for i in rng.sample(range(4), rng.choice((1, 2, 3)))]
    preds = [(0, 0, 1), (1, 0, 2)]
    x, y = ('v', 0, 0), ('v', 1, 0)
    def atom(vars_):
        pk = rng.choice(preds)
        def term():
            return rng.choice(vars_) if vars_ and rng.random() < 0.65 else rng.choice(consts)
        if identity and rng.random() < 0.25:
            return ('P', refsem.IDENTITY, (term(), term()))
        return ('P', pk, tuple(term() for _ in range(pk[2])))
    def ground():
        s = atom(())
        return s if rng.random() < 0.7 else ('O', 'Negation', (s,))
    def quantified():
        for _ in range(8):
            body = atom((x,))
            if rng.random() < 0.4:
                body = ('O', rng.choice(('MaterialConditional', 'Conjunction', 'Disjunction', 'Conditional')), (body, atom((x,))))
            if rng.random() < 0.25:
                body = ('O', 'Negation', (body,))
            if x in refsem._free_vars(body):
                s = ('Q', rng.choice(('Universal', 'Universal', 'Existential')), (0, 0), body)
                return s if rng.random() < 0.8 else ('O', 'Negation', (s,))
        return ('Q', 'Universal', (0, 0), ('P', (0, 0, 1), (x,)))
    prems = [quantified() if rng.random() < 0.6 else ground() for _ in range(rng.choice((1, 2, 2, 3)))]
    conc = ground() if rng.random() < 0.6 else quantified()
    rng.shuffle(prems)
    return prems, conc

def modal_fo_template(rng, identity=False):
    "Quantified and ground first-order sentences under modal operators: witnesses at several worlds."
    prems, conc = fo_template(rng, identity)
    def wrap(s):
        for _ in range(rng.choice((0, 1, 1, 2))):
            s = ('O', rng.choice(('Possibility', 'Possibility', 'Necessity')), (s,))
        return s
    return [wrap(p) for p in prems], wrap(conc)

def identity_modal_template(rng):
    "Identity statements and predications spread over several worlds (classical modal logics)."
    cs = [('c', i, 0) for i in rng.sample(range(4), 2)]
    F = (rng.randrange(2), 0, 1)
    def box(s): return ('O', 'Necessity', (s,))
    def dia(s): return ('O', 'Possibility', (s,))
    def neg(s): return ('O', 'Negation', (s,))
    ident = ('P', refsem.IDENTITY, tuple(cs if rng.random() < 0.7 else cs[::-1]))
    Fa, Fb = ('P', F, (cs[0],)), ('P', F, (cs[1],))
    atom = ('A', rng.randrange(2), 0)
    # biased to statements that hold at every world meeting witnesses at several worlds
    pool = [rng.choice((box(ident), box(ident), box(ident), ident, dia(ident))),
            rng.choice((box(Fa), box(Fa), box(Fa), Fa, dia(Fa), box(box(Fa)))),
            rng.choice((dia(neg(Fb)), dia(neg(Fb)), dia(neg(Fb)), neg(Fb), box(neg(Fb)), dia(dia(neg(Fb))), neg(dia(Fb)))),
            rng.choice((dia(atom), dia(neg(atom)), dia(Fa), box(atom)))]
    k = rng.choice((2, 3, 4, 4))
    prems = rng.sample(pool, k)
    rng.shuffle(prems)
    conc = rng.choice((atom, neg(atom), Fb, dia(Fb), box(Fb), neg(ident), dia(atom)))
    return prems, conc


def boxed_universal_template(rng):
    """The same universal sentence reaching several sibling worlds of one branch, only some of which hold a
    sentence that mentions a constant: which twin node is instantiated first is a tie-break (seeded R4C09-A)."""
    x = ('v', 0, 0)
    F, G = (0, 0, 1), (1, 0, 1)
    c = ('c', rng.randrange(3), 0)
    def box(s): return ('O', 'Necessity', (s,))
    def dia(s): return ('O', 'Possibility', (s,))
    def neg(s): return ('O', 'Negation', (s,))
    Fx = ('P', F, (x,))
    body = rng.choice((Fx, Fx, neg(Fx), ('O', 'Disjunction', (Fx, ('P', G, (x,))))))
    allF = ('Q', 'Universal', (0, 0), body)
    nobody = ('Q', 'Universal', (0, 0), neg(body))
    ground = rng.choice((('P', G, (c,)), neg(('P', G, (c,))), ('P', F, (c,))))
    atom = ('A', rng.randrange(2), 0)
    prems = [rng.choice((box(allF), box(allF), box(box(allF)), allF))]
    prems += rng.sample([dia(ground), dia(ground), dia(atom), dia(neg(atom)), ground, dia(dia(ground))], rng.choice((1, 2, 2, 3)))
    rng.shuffle(prems)
    conc = rng.choice((box(neg(nobody)), box(neg(nobody)), neg(dia(nobody)), box(('Q', 'Existential', (0, 0), body)),
                       dia(neg(nobody)), box(('O', 'Disjunction', (neg(nobody), atom)))))
    return prems, conc

def _deep_kernels():
    a, b = ('A', 0, 0), ('A', 1, 0)
    neg = lambda s: ('O', 'Negation', (s,))
    return [a, neg(a), ('O', 'Conjunction', (a, neg(a))), ('O', 'Disjunction', (a, neg(a))),
            ('O', 'Conjunction', (a, b)), ('O', 'MaterialConditional', (a, b)), ('O', 'Disjunction', (a, b)),
            ('O', 'Conjunction', (a, ('O', 'Possibility', (neg(a),))))]

def modal_prefix(code, length, kernel):
    "Base-3 code -> prefix over (Necessity, Possibility, Negation) of the given length."
    s = kernel
    for _ in range(length):
        s = ('O', ('Necessity', 'Possibility', 'Negation')[code % 3], (s,))
        code //= 3
    return s

def deep_modal_template(rng):
    """One long chain of modal operators over a small kernel (contradiction, tautology, literal):
    world counts at, just below and just above the projected maximum, closing steps that need a
    late world's own access pairs."""
    ks = _deep_kernels()
    b = ('A', 1, 0)
    def chain(n, kernel=None):
        s = kernel or rng.choice(ks)
        for _ in range(n):
            r = rng.random()
            s = ('O', 'Possibility' if r < 0.45 else ('Necessity' if r < 0.92 else 'Negation'), (s,))
        return s
    main = chain(rng.choice((3, 4, 4, 5, 5, 6)), rng.choice((ks[2], ks[2], None, None)))
    prems = [main]
    if rng.random() < 0.3:
        prems.append(chain(rng.choice((1, 2, 3))))
        rng.shuffle(prems)
    r = rng.random()
    if r < 0.4:
        conc = b
    elif r < 0.8:
        conc = chain(rng.choice((1, 2, 2, 3)), ks[0] if rng.random() < 0.6 else None)
    else:
        # the premise's own chain with one operator changed
        conc = chain(rng.choice((0, 1)), main[2][0])
    return prems, conc

def dead_end_template(rng):
    """Several possibility premises whose bodies are boxed: sibling worlds that have no successor
    of their own until a frame rule gives them one, each with its own box waiting."""
    def lit():
        a = ('A', rng.randrange(2), 0)
        return a if rng.random() < 0.5 else ('O', 'Negation', (a,))
    def box(s): return ('O', 'Necessity', (s,))
    def dia(s): return ('O', 'Possibility', (s,))
    prems = []
    for _ in range(rng.choice((2, 2, 3))):
        body = box(lit())
        if rng.random() < 0.25:
            body = ('O', 'Conjunction', (('A', 2, 0), body))
        prems.append(dia(body) if rng.random() < 0.85 else dia(dia(body)))
    if rng.random() < 0.35:
        prems.append(box(dia(('A', 2, 0))))
    if rng.random() < 0.35 and len(prems) >= 2:
        # the dead ends under a disjunction: a chain of worlds on one branch, a fork of worlds on the other
        left = dia(prems[0])
        right = ('O', 'Conjunction', (prems[1], prems[2] if len(prems) > 2 else dia(box(lit()))))
        prems = [('O', 'Disjunction', (left, right) if rng.random() < 0.5 else (right, left))] + prems[3:]
    rng.shuffle(prems)
    r = rng.random()
    conc = ('A', 1, 0) if r < 0.5 else (dia(lit()) if r < 0.75 else ('O', 'Negation', (rng.choice(prems),)))
    if conc[0] == 'O' and conc[1] == 'Negation' and conc[2][0] in prems and len(prems) > 1:
        prems.remove(conc[2][0])
    return prems, conc

def modal_interplay_template(rng):
    """(a) the same modal sentence required at several worlds (s, box s, a further possibility);
    (b) several boxes whose contents meet under one possibility (necessity distribution), with a
    conclusion that branches inside the new world."""
    atoms = [('A', i, 0) for i in rng.sample(range(4), 4)]
    x, y, z, w = atoms
    def neg(s): return ('O', 'Negation', (s,))
    def box(s): return ('O', 'Necessity', (s,))
    def dia(s): return ('O', 'Possibility', (s,))
    def lit(a): return a if rng.random() < 0.75 else neg(a)
    if rng.random() < 0.5:
        inner = rng.choice((dia, dia, box))(x)
        prems = [inner, box(inner), dia(y)]
        if rng.random() < 0.5:
            prems.append(dia(w))
        prems.append(box(('O', rng.choice(('MaterialConditional', 'Conditional', 'Disjunction')), (neg(x) if rng.random() < 0.2 else x, z))))
        conc = rng.choice((dia(z), dia(z), box(z), z, dia(dia(z))))
    else:
        lx, ly = lit(x), lit(y)
        prems = [box(lx), box(ly), dia(lit(w))]
        if rng.random() < 0.3:
            prems.append(rng.choice((box(lx), box(lit(z)), dia(lit(z)))))
        op = rng.choice(('Conjunction', 'Conjunction', 'Conjunction', 'Disjunction', 'MaterialConditional'))
        conc = dia(('O', op, (ly, lx))) if rng.random() < 0.7 else box(('O', op, (lx, ly)))
    rng.shuffle(prems)
    return prems, conc

def modal_contradiction_template(rng):
    """A modal contradiction (or a disjunction of two) under a prefix of modal operators as a
    premise, next to premises that repeat its own sub-sentences at the top level; irrelevant
    conclusion. Which logics prove it depends on the frame condition needed to bring the two
    halves of the contradiction together."""
    x, y = [('A', i, 0) for i in rng.sample(range(3), 2)]
    def neg(s): return ('O', 'Negation', (s,))
    def box(s): return ('O', 'Necessity', (s,))
    def dia(s): return ('O', 'Possibility', (s,))
    def conj(a, b): return ('O', 'Conjunction', (a, b) if rng.random() < 0.5 else (b, a))
    def disj(a, b): return ('O', 'Disjunction', (a, b) if rng.random() < 0.5 else (b, a))
    def core():
        k = rng.randrange(9)
        if k == 0: p, q = box(neg(x)), dia(x)
        elif k == 1: p, q = box(neg(x)), box(dia(x))
        elif k == 2: p, q = box(x), neg(x)
        elif k == 3: p, q = box(box(neg(x))), dia(dia(x))
        elif k == 4: p, q = box(neg(x)), dia(dia(x))
        elif k == 5: p, q = box(('O', 'MaterialConditional', (x, y))), dia(conj(x, neg(y)))
        elif k == 6: p, q = box(neg(x)), disj(dia(x), dia(x))
        elif k == 7: p, q = x, neg(x)
        else: p, q = box(dia(x)), box(box(neg(x)))
        return conj(p, q), (p, q)
    c1, parts = core()
    def wrap(s):
        for _ in range(rng.choice((0, 1, 1, 2))):
            s = (dia if rng.random() < 0.7 else box)(s)
        return s
    main = wrap(c1)
    if rng.random() < 0.35:
        # two contradictions as alternatives, mostly each in a new world of its own
        c2, parts2 = core()
        parts = parts + parts2
        if rng.random() < 0.6:
            main = disj(dia(c1), dia(c2))
        else:
            main = disj(main, wrap(c2))
    prems = [main]
    # sub-sentences of the contradiction repeated at the top level
    subs = [z for p in parts for z in refsem.walk(p) if z[0] == 'O' and z[1] in ('Possibility', 'Necessity')]
    r = rng.random()
    if r < 0.3:
        prems.append(dia(x))
    elif r < 0.6 and subs:
        prems.append(rng.choice(subs))
    elif r < 0.8:
        prems.append(dia(rng.choice((x, y))))
    if rng.random() < 0.2:
        prems.append(dia(('A', 3, 0)))
    rng.shuffle(prems)
    conc = ('A', 3, 1) if rng.random() < 0.7 else dia(('A', 3, 1))
    return prems, conc

def witness_worlds_template(rng):
    """Quantified sentences and instances of their matrices spread over different worlds: the
    witness of an existential at one world next to the same predication at another."""
    F = (rng.randrange(2), 0, 1)
    m, n = [('c', i, 0) for i in rng.sample(range(4), 2)]
    x = ('v', rng.randrange(2), 0)
    Fx = ('P', F, (x,))
    def neg(s): return ('O', 'Negation', (s,))
    def dia(s): return ('O', 'Possibility', (s,))
    def box(s): return ('O', 'Necessity', (s,))
    def conj(a, b): return ('O', 'Conjunction', (a, b))
    ex = ('Q', 'Existential', (x[1], 0), Fx)
    un = ('Q', 'Universal', (x[1], 0), Fx)
    nex = ('Q', 'Existential', (x[1], 0), neg(Fx))
    nun = ('Q', 'Universal', (x[1], 0), neg(Fx))
    Fm, Fn = ('P', F, (m,)), ('P', F, (n,))
    quants = [ex, un, nex, nun, neg(ex), neg(un)]
    def mod(s):
        r = rng.random()
        return s if r < 0.3 else (dia(s) if r < 0.7 else (box(s) if r < 0.9 else dia(dia(s))))
    prems = []
    # an instance at one world
    prems.append(rng.choice((Fm, Fm, neg(Fm), dia(Fm), box(Fm), box(neg(Fm)))))
    # quantified sentences meeting at another world
    q1, q2 = rng.choice(quants), rng.choice(quants)
    r = rng.random()
    if r < 0.45:
        prems.append(dia(conj(q1, q2)))
    elif r < 0.7:
        prems.extend([dia(q1), box(q2)])
    else:
        prems.extend([mod(q1), mod(q2)])
    if rng.random() < 0.25:
        prems.append(rng.choice((Fn, neg(Fn), dia(Fn))))
    rng.shuffle(prems)
    conc = rng.choice((('A', 1, 0), ('A', 1, 0), Fn, dia(Fn), mod(rng.choice(quants)), neg(Fm)))
    return prems, conc

def _gen_case(rng, logic, fragment=None, p_example=0.3):
    prof = profile_for(rng, logic, fragment)
    sem = refsem.get(logic)
    # templates with a fixed share each (the rest: mutated library examples and free generation)
    table = []
    if sem.modal and fragment in (None, 'modal'):
        serial = sem.frame == 'D'
        table += [(0.06, deep_modal_template), (0.15 if serial else 0.07, dead_end_template),
                  (0.10, modal_interplay_template), (0.06, modal_contradiction_template),
                  (0.25 if serial else (0.15 if fragment is None else 0.3), modal_template)]
        if fragment is None and sem.quantified:
            table += [(0.07, lambda r: modal_fo_template(r, identity=sem.classical)), (0.07, witness_worlds_template)]
            if sem.classical:
                table.append((0.12 if serial else 0.18, identity_modal_template))
    if sem.quantified and fragment in (None, 'fo'):
        table.append((0.05 if sem.modal else 0.15, lambda r: fo_template(r, identity=sem.classical)))
    r = rng.random()
    for wgt, fn in table:
        if r < wgt:
            return fn(rng)
        r -= wgt
    if rng.random() < p_example:
        exs = example_args()
        for _ in range(8):
            name, prems, conc = rng.choice(exs)
            sents = list(prems) + [conc]
            if fragment == 'prop' and not all(refsem.is_propositional(s) and not any(x[0] == 'P' for x in refsem.walk(s)) for s in sents):
                continue
            if not sem.modal and any(refsem.has_modal(s) for s in sents) and rng.random() < 0.9:
                continue
            if not sem.quantified and any(refsem.has_quant(s) for s in sents) and rng.random() < 0.9:
                continue
            if rng.random() < 0.6:
                prems, conc = mutate(rng, prems, conc, prof)
            return list(prems), conc
    return lexgen.gen_argument(rng, prof)

def bulk_premises(rng, prems, modal):
    """Many extra premises at once, all repeating one sentence of the argument (alone, next to
    letters of their own, or as further possibilities), so that equal node content piles up on a
    branch or spreads over many worlds."""
    pool = [x for s in prems for x in refsem.walk(s) if not refsem._free_vars(x)]
    if not pool:
        return list(prems)
    pool.sort(key=refsem.size)
    p = rng.choice(pool[:max(1, len(pool) // 2)])
    extras = []
    for i in range(rng.choice((3, 5, 6, 7, 8))):
        fresh = ('A', 3 + i % 2, 1 + i // 2)
        r = rng.random()
        if r < 0.45: e = ('O', 'Conjunction', (p, fresh))
        elif r < 0.65: e = ('O', 'Conjunction', (fresh, p))
        elif modal and r < 0.85: e = ('O', 'Possibility', (fresh,))
        else: e = p
        extras.append(e)
    mp = list(prems)
    at = rng.randrange(len(mp) + 1)
    return mp[:at] + extras + mp[at:] if rng.random() < 0.5 else mp + extras

def gen_case(rng, logic, fragment=None, p_example=0.3):
    prems, conc = _gen_case(rng, logic, fragment, p_example)
    if fragment != 'prop' and prems and rng.random() < 0.04:
        prems = bulk_premises(rng, list(prems), refsem.get(logic).modal and fragment in (None, 'modal'))
    return prems, conc

# -- scale sweep: n-fold repetition across sizes, with the answer known by construction

SCALE_N = 20
def scale_cases():
    "(form, n, m, valid?) for n = 1..SCALE_N copies against m = n-1, n, n+1 items of the other kind."
    out = []
    for form in (0, 1):
        for n in range(1, SCALE_N + 1):
            for m in (n - 1, n, n + 1):
                if m < 0: continue
                for valid in (False, True):
                    out.append((form, n, m, valid))
    return out

def scale_case(sem, case):
    """Returns (premises, conclusion, counter-valuation or None). form 0: m distinct letters |- b v b v ... (n
    copies); form 1: b & b & ... (n copies) |- c1 v ... v cm (m distinct letters). The valid variants
    add the letter that settles it. The counter-valuation is checked by the caller's evaluator."""
    form, n, m, valid = case
    b = ('A', 1, 0)
    others = [('A', (0, 2, 3, 4)[i % 4], i // 4) for i in range(max(m, 1))]
    def fold(op, items):
        s = items[-1]
        for x in reversed(items[:-1]):
            s = ('O', op, (x, s))
        return s
    T = 'T'
    F = 'F'
    if form == 0:
        prems = list(others[:m])
        conc = fold('Disjunction', [b] * n)
        val = {x: T for x in prems}; val[b] = F
        if valid:
            prems.insert(len(prems) // 2, b)
    else:
        prems = [fold('Conjunction', [b] * n)]
        items = others[:max(m, 1)]
        conc = fold('Disjunction', items)
        val = {x: F for x in items}; val[b] = T
        if valid:
            conc = fold('Disjunction', items[:len(items) // 2] + [b] + items[len(items) // 2:])
    return prems, conc, (None if valid else val)

def fragment_of(prems, conc):
    sents = list(prems) + [conc]
    m = any(refsem.has_modal(s) for s in sents)
    q = any(refsem.has_quant(s) for s in sents)
    p = any(x[0] == 'P' for s in sents for x in refsem.walk(s))
    return ('modal' if m else '') + ('fo' if q else ('pred' if p else '')) or 'prop'
