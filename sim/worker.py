import sys
from sim.kernel import worker_main
if __name__ == '__main__':
    sys.exit(worker_main(sys.argv[1:]))
