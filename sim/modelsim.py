"""modelsim: model-API call histories (set-value / add-access in seeded order, then finish),
mirrored order-free into the reference semantics R1."""
from __future__ import annotations

import itertools

from pytableaux.logics import registry

from . import lexgen
from .ref import refsem

def ground_truth(rng, sem):
    """A consistent hidden structure: worlds, access pairs, constants, values."""
    nworlds = rng.choice((1, 2, 2, 3)) if sem.modal else 1
    worlds = list(range(nworlds))
    if rng.random() < 0.25 and sem.modal:
        worlds = sorted(rng.sample(range(4), nworlds))
        if 0 not in worlds:
            worlds[0] = 0
            worlds = sorted(set(worlds))
    R = set()
    if sem.modal:
        dens = rng.choice((0.2, 0.4, 0.7))
        R = {(a, b) for a in worlds for b in worlds if rng.random() < dens}
    # mostly <= 3 constants; some larger domains (two multi-member identity classes need >= 4)
    nconsts = rng.choice((0, 1, 2, 2, 3, 3, 4, 5))
    pool = [('c', i, 0) for i in range(4)] + [('c', 0, 1), ('c', 2, 1)]
    consts = sorted(rng.sample(pool, nconsts))
    atoms = [('A', i, 0) for i in range(rng.choice((1, 2, 3)))]
    preds = [(0, 0, 1)] + ([(1, 0, 2)] if rng.random() < 0.5 else [])
    opaques = []
    if not sem.modal:
        opaques.append(('O', 'Possibility', (('A', 0, 0),)))
        if rng.random() < 0.5:
            opaques.append(('O', 'Necessity', (('O', 'Negation', (('A', 1, 0),)),)))
    if not sem.quantified:
        opaques.append(('Q', 'Universal', (0, 0), ('P', (0, 0, 1), (('v', 0, 0),))))
    facts = []     # (kind, world, sentence, value)
    p_set = rng.choice((0.5, 0.8, 1.0))
    # classical identity: a partition of the constants per world
    ident = {}
    for w in worlds:
        for a in atoms:
            if rng.random() < p_set:
                facts.append(('atom', w, a, rng.choice(sem.values)))
        for o in opaques:
            if rng.random() < p_set:
                facts.append(('opaque', w, o, rng.choice(sem.values)))
        if consts:
            if sem.classical:
                # objects: constants mapped onto <= len(consts) objects
                objs = {c: rng.randrange(max(1, len(consts) - rng.choice((0, 0, 1)))) for c in consts}
                ident[w] = objs
                ext = {}
                for pk in preds:
                    for tup in itertools.product(sorted(set(objs.values())), repeat=pk[2]):
                        ext[(pk, tup)] = rng.choice(sem.values)
                for pk in preds:
                    for tup in itertools.product(consts, repeat=pk[2]):
                        if rng.random() < p_set:
                            facts.append(('pred', w, ('P', pk, tup), ext[(pk, tuple(objs[c] for c in tup))]))
                for a in consts:
                    for b in consts:
                        if a != b and objs[a] == objs[b] and rng.random() < 0.7:
                            facts.append(('pred', w, ('P', refsem.IDENTITY, (a, b)), 'T'))
            else:
                for pk in preds + ([refsem.IDENTITY] if rng.random() < 0.3 else []):
                    for tup in itertools.product(consts, repeat=pk[2]):
                        if rng.random() < p_set:
                            facts.append(('pred', w, ('P', pk, tup), rng.choice(sem.values)))
    return dict(worlds=worlds, R=sorted(R), facts=facts, atoms=atoms, preds=preds, opaques=opaques, consts=consts)

def history_from(rng, gt, sem, conflicts=False):
    """API call list: every fact once or twice, access pairs, in a seeded order; some facts as
    negated literals. With conflicts, some facts are also offered with a second, different
    value (a fault: the model refuses whichever call comes second, the caller carries on)."""
    calls = []
    neg = sem.ops['Negation']
    for kind, w, s, v in gt['facts']:
        reps = 2 if rng.random() < 0.15 else 1
        for _ in range(reps):
            if kind in ('atom', 'pred') and rng.random() < 0.3 and neg(neg(v)) == v:
                # feed "not s := neg(v)" through set_literal_value
                calls.append(['literal', w, lexgen.to_json(('O', 'Negation', (s,))), neg(v)])
            elif rng.random() < 0.3:
                calls.append(['value', w, lexgen.to_json(s), v])
            else:
                calls.append([kind, w, lexgen.to_json(s), v])
    for (a, b) in gt['R']:
        calls.append(['access', a, b])
        if rng.random() < 0.1:
            calls.append(['access', a, b])
    for w in gt['worlds']:
        if rng.random() < 0.3:
            calls.append(['world', w])
    if conflicts and gt['facts'] and rng.random() < 0.4:
        for _ in range(rng.choice((1, 1, 2))):
            kind, w, sent, v = rng.choice(gt['facts'])
            others = [x for x in sem.values if x != v]
            if others:
                calls.append(['conflict', kind, w, lexgen.to_json(sent), rng.choice(others)])
    rng.shuffle(calls)
    # a preview of the export before the model is finished (the description of the finished
    # model must not depend on it)
    if calls and rng.random() < 0.3:
        calls.insert(rng.randrange(len(calls) + 1), ['preview'])
    return calls

def apply_history(logic, calls):
    "Drive the library's model API. Returns the finished model."
    L = registry(logic)
    m = L.Model()
    conflicted = any(c[0] == 'conflict' for c in calls)
    for c in calls:
        k = c[0]
        if k == 'access':
            m.R.add((c[1], c[2]))
        elif k == 'preview':
            try:
                m.get_data()
            except Exception:
                pass
        elif k == 'world':
            m.R[c[1]]
            m.frames[c[1]] if L.Meta.modal else None
        elif k == 'conflict':
            # whichever of the two conflicting calls comes second is refused; carry on
            sub = [c[1], c[2], c[3], c[4]]
            try:
                _set(L, m, sub)
            except Exception:
                pass
        else:
            if conflicted:
                # after a refused call nothing is promised about which of the two values stays,
                # so a later refusal of the other one is part of the same fault
                try:
                    _set(L, m, c)
                except Exception:
                    pass
            else:
                _set(L, m, c)
    m.finish()
    return m

def _set(L, m, c):
    k = c[0]
    s = lexgen.build(lexgen.from_json(c[2]))
    kw = dict(world=c[1]) if L.Meta.modal or c[1] else {}
    if k == 'atom': m.set_atomic_value(s, c[3], **kw)
    elif k == 'pred': m.set_predicated_value(s, c[3], **kw)
    elif k == 'opaque': m.set_opaque_value(s, c[3], **kw)
    elif k == 'literal': m.set_literal_value(s, c[3], **kw)
    elif k == 'value': m.set_value(s, c[3], **kw)
    else: raise ValueError(k)

def reference_model(sem, calls, lib_R=None):
    """The same facts as a set, completed by R1's rules. For the serial logic the library's
    own completed relation is passed in (its freedom: any serial superset)."""
    worlds = {0}
    R = set()
    consts = []
    rm = refsem.RModel()
    neg = sem.ops['Negation']
    for c in calls:
        k = c[0]
        if k == 'preview':
            continue
        if k == 'access':
            R.add((c[1], c[2])); worlds.update((c[1], c[2]))
        elif k == 'world':
            worlds.add(c[1])
        else:
            s = lexgen.from_json(c[2])
            w = c[1]
            v = c[3]
            worlds.add(w)
            if k == 'literal' or (k == 'value' and s[0] == 'O' and s[1] == 'Negation' and not sem.is_opaque(s)):
                if s[0] == 'O' and s[1] == 'Negation' and not sem.is_opaque(s):
                    s = s[2][0]
                    v = neg(v)
            for x in refsem.constants_of(s):
                if x not in consts:
                    consts.append(x)
            if sem.is_opaque(s): rm.opaque[(w, s)] = v
            elif s[0] == 'A': rm.atom[(w, s)] = v
            elif s[0] == 'P': rm.pred[(w, s[1], s[2])] = v
            else: raise ValueError(s)
    if not sem.modal:
        worlds = {0}
        R = set()
    rm.worlds = sorted(worlds)
    rm.consts = sorted(consts)
    if sem.frame == 'D':
        rm.R = set(lib_R) if lib_R is not None else set(R)
        rm.worlds = sorted(set(rm.worlds) | {w for p in rm.R for w in p})
    else:
        rm.R = sem.frame_closure(rm.worlds, R)
    rm._succ = None
    if sem.classical:
        refsem.classical_complete(sem, rm)
    return rm, R

def vocabulary_sentences(rng, sem, gt, n, depth=2):
    "Sentences over the model's vocabulary: all operators, quantifiers, modal operators, opaques."
    consts = gt['consts']
    atoms = gt['atoms'] + [('A', 3, 0)]        # one never-assigned letter
    leaves = list(atoms) + list(gt['opaques'])
    preds = list(gt['preds']) + ([refsem.IDENTITY, refsem.EXISTENCE] if sem.classical else [refsem.IDENTITY])
    if consts:
        for pk in preds:
            for tup in itertools.product(consts, repeat=pk[2]):
                leaves.append(('P', pk, tup))
    out = []
    def gen(d, bound):
        r = rng.random()
        if d <= 0 or r < 0.2:
            if bound and rng.random() < 0.8:
                pk = rng.choice(preds)
                return ('P', pk, tuple(rng.choice(bound) if rng.random() < 0.7 or not consts else rng.choice(consts) for _ in range(pk[2])))
            cands = [l for l in leaves if not refsem._free_vars(l)]
            return rng.choice(cands)
        if r < 0.35 and len(bound) < 2:
            v = ('v', len(bound), 0)
            for _ in range(5):
                body = gen(d - 1, bound + (v,))
                if v in refsem._free_vars(body):
                    return ('Q', rng.choice(('Existential', 'Universal')), (v[1], 0), body)
            return ('Q', rng.choice(('Existential', 'Universal')), (v[1], 0), ('P', (0, 0, 1), (v,)))
        if r < 0.5:
            return ('O', rng.choice(refsem.MODAL), (gen(d - 1, bound),))
        op = rng.choice(refsem.UNARY + refsem.BINARY)
        if op in refsem.UNARY:
            return ('O', op, (gen(d - 1, bound),))
        return ('O', op, (gen(d - 1, bound), gen(d - 1, bound)))
    tries = 0
    while len(out) < n and tries < n * 4:
        tries += 1
        s = gen(rng.choice((1, 2, depth)), ())
        if refsem._free_vars(s):
            continue
        out.append(s)
    return out

def localise(sem, lib, rm, s, w):
    """Innermost subformula on which the library and R1 disagree while agreeing on all its
    parts. Returns (kind, name, child values, lib value, r1 value) or None."""
    def lv(x, ww):
        return str(lib.value_of(lexgen.build(x), **({'world': ww} if lib.Meta.modal else {})))
    def rv(x, ww):
        return sem.eval(x, rm, ww)
    def rec(x, ww):
        a, b = lv(x, ww), rv(x, ww)
        if a == b:
            return None
        if sem.is_opaque(x) or x[0] in ('A', 'P'):
            return ('leaf', 'opaque' if sem.is_opaque(x) else x[0], (), a, b)
        if x[0] == 'O' and x[1] in refsem.MODAL:
            kids = [(x[2][0], v) for v in rm.succ(ww)]
        elif x[0] == 'O':
            kids = [(y, ww) for y in x[2]]
        else:
            kids = [(refsem.subst(x[3], ('v',) + tuple(x[2]), c), ww) for c in rm.consts]
        for y, yw in kids:
            r = rec(y, yw)
            if r is not None:
                return r
        vals = tuple(rv(y, yw) for y, yw in kids)
        return ('clause', x[1], vals, a, b)
    return rec(s, w)
