"""Self-tests that gate trust: determinism of runs across processes, orders and hash seeds."""
from __future__ import annotations
import json
import os
import sys
import time

from . import kernel

ALL = ('C18',)

def discover():
    d = os.path.join(os.path.dirname(__file__), 'checks')
    return sorted(f[:-3].upper() for f in os.listdir(d) if f.startswith('c') and f.endswith('.py') and f[1:-3].isdigit())

def determinism(check_id, seed, n, tier='quick'):
    """Run n run-indices per salt: in one process in increasing order, in a second process in
    decreasing order under another PYTHONHASHSEED with garbage allocated first (different
    address layout). All digests and violation keys must agree."""
    mod = kernel.load_check(check_id)
    nsalts = mod.salts(tier) if hasattr(mod, 'salts') else getattr(mod, 'SALTS', 1)
    wd = kernel.workdir(check_id + '-selftest')
    jobs = []
    per = max(1, n // nsalts)
    for salt in range(nsalts):
        idx = [salt + nsalts * k for k in range(per)]
        for tagname, hs, order in (('a', '0', idx), ('b', '12345', idx[::-1])):
            jobs.append(dict(mode='digest', check=check_id, tier=tier, seed=seed, salt=salt,
                indices=order, hashseed=hs, timeout=600,
                out=os.path.join(wd, 'd%s_%d.json' % (tagname, salt))))
    results, errors = kernel.run_jobs(jobs, kernel.njobs(), 630)
    try:
        os.rmdir(wd)
    except OSError:
        pass
    if errors:
        for e in errors[:3]:
            print('[selftest] HARNESS ERROR ' + e)
        return False, 0
    by = {}
    for res in results:
        by.setdefault(res['job']['salt'], []).append(res['digests'])
    bad = 0
    total = 0
    for salt, pair in by.items():
        a, b = pair
        for i in a:
            total += 1
            if a[i] != b.get(i):
                bad += 1
                print('[selftest] %s run %s salt %s diverged: %s vs %s' % (check_id, i, salt, a[i], b.get(i)))
    print('[selftest] %s: %d runs x 2 processes (hash seeds 0/12345, opposite orders): %d divergent' % (check_id, total, bad))
    return bad == 0, total

def main(ids, seed, n):
    ids = [i.upper() for i in ids] or discover()
    ok = True
    for cid in ids:
        good, _ = determinism(cid, seed, n)
        ok = ok and good
    return 0 if ok else 2

def setup(seed):
    "MANIFEST.setup_cmd: nothing to build (pure Python, imports /repo's working tree); verify the environment."
    import subprocess
    env = kernel.worker_env(0)
    p = subprocess.run([sys.executable, '-B', '-c',
        'import pytableaux, pytableaux._verif as v; assert v.ENABLED; import sim.kernel; print("ok", pytableaux.__file__)'],
        env=env, cwd=kernel.VERIF, capture_output=True, text=True)
    print(p.stdout.strip().splitlines()[-1] if p.stdout.strip() else p.stderr[-2000:])
    if p.returncode != 0:
        return 2
    os.makedirs(kernel.EVIDENCE, exist_ok=True)
    os.makedirs(kernel.REPLAYS, exist_ok=True)
    return main([], seed, 16)
