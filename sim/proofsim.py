"""proofsim: one tableau per run under a controlled tie-break schedule and virtual clock.

The simulator owns: the hash order of nodes/branches (pytableaux._verif provider), the
lexical construction cache size, the wall clock (pytableaux.tools.timing._time), limits and
the drive mode. Everything else is the real code from /repo's working tree.
"""
from __future__ import annotations

from pytableaux import _verif
from pytableaux.errors import ProofTimeoutError
from pytableaux.lang import LexicalAbcMeta
from pytableaux.proof import Tableau
from pytableaux.proof.common import (AccessNode, ClosureNode, QuitFlagNode, SentenceNode)
from pytableaux.tools import timing

from . import lexgen

CACHE_SIZES = (1, 2, 3, 5, 8, 64, 1000)

# ---------------------------------------------------------------------------
# virtual clock

class VClock:
    """Time advances only when the system under test reads it. `plan` maps read index ->
    extra milliseconds (a jump); `base` is added at every read."""

    def __init__(self, base=0, plan=None, start=1_000_000):
        self.ms = start
        self.start = start
        self.base = base
        self.plan = dict(plan or {})
        self.reads = 0
        self.frozen = False
        self.fired = []
        self.log = []          # value (ms) returned by each read, in order

    def read(self):
        if self.frozen:
            return self.ms / 1000.0
        k = self.reads
        self.reads += 1
        adv = self.base
        if k in self.plan:
            adv += self.plan[k]
            self.fired.append((k, self.plan[k]))
        self.ms += adv
        self.log.append(self.ms)
        return self.ms / 1000.0

    @property
    def elapsed(self):
        return self.ms - self.start

class clock_installed:
    def __init__(self, clock):
        self.clock = clock
    def __enter__(self):
        self.saved = timing._time
        timing._time = self.clock.read
        return self.clock
    def __exit__(self, *a):
        timing._time = self.saved

class frozen:
    "Monitor-side reads of timers must not advance simulated time."
    def __init__(self, clock):
        self.clock = clock
    def __enter__(self):
        self.prev = self.clock.frozen
        self.clock.frozen = True
    def __exit__(self, *a):
        self.clock.frozen = self.prev

# ---------------------------------------------------------------------------
# naming without id()

class Names:
    "First-seen ordinals for nodes and branches."
    def __init__(self):
        self.nodes = {}
        self.branches = {}
        self._n = []
        self._b = []
    def node(self, n):
        k = id(n)
        if k not in self.nodes:
            self.nodes[k] = len(self._n)
            self._n.append(n)      # keep alive so id() stays unique
        return self.nodes[k]
    def branch(self, b):
        k = id(b)
        if k not in self.branches:
            self.branches[k] = len(self._b)
            self._b.append(b)
        return self.branches[k]

def render_node(node):
    "Polish-ASCII rendering of a node, independent of the library's writers."
    if isinstance(node, AccessNode):
        return 'w%sRw%s' % (node['world1'], node['world2'])
    if isinstance(node, ClosureNode):
        return '(x)'
    if isinstance(node, QuitFlagNode):
        return '(quit:%s)' % node.get('info')
    if isinstance(node, SentenceNode):
        s = lexgen.polish(lexgen.to_ast(node['sentence']))
        d = node.get('designated')
        w = node.get('world')
        return s + ('' if d is None else (' +' if d else ' -')) + ('' if w is None else ' w%s' % w)
    if node.get('ellipsis'):
        return '...'
    return repr(sorted((str(k), str(v)) for k, v in node.items()))

def is_flagged(branch):
    return any(isinstance(n, QuitFlagNode) for n in branch)

# ---------------------------------------------------------------------------
# a run

class Config:
    """Everything that defines one simulated tableau run; JSON round-trippable."""
    FIELDS = ('logic', 'prems', 'conc', 'opts', 'order_seed', 'overrides', 'cache', 'drive',
              'clock_base', 'clock_plan', 'late_setup')

    def __init__(self, logic, prems, conc, opts=None, order_seed=0, overrides=None, cache=1000,
                 drive='build', clock_base=1, clock_plan=None, late_setup=False):
        self.logic = logic
        self.prems = list(prems)
        self.conc = conc
        self.opts = dict(opts or {})
        self.order_seed = order_seed
        self.overrides = dict(overrides or {})
        self.cache = cache
        self.drive = drive
        self.clock_base = clock_base
        self.clock_plan = dict(clock_plan or {})
        self.late_setup = late_setup

    def to_json(self):
        d = {k: getattr(self, k) for k in self.FIELDS}
        d['prems'] = [lexgen.to_json(p) for p in self.prems]
        d['conc'] = lexgen.to_json(self.conc)
        d['overrides'] = {str(k): v for k, v in self.overrides.items()}
        d['clock_plan'] = {str(k): v for k, v in self.clock_plan.items()}
        d['argstr'] = lexgen.argstr(self.prems, self.conc)
        return d

    @classmethod
    def from_json(cls, d):
        d = dict(d)
        d.pop('argstr', None)
        d['prems'] = [lexgen.from_json(p) for p in d['prems']]
        d['conc'] = lexgen.from_json(d['conc'])
        d['overrides'] = {int(k): v for k, v in (d.get('overrides') or {}).items()}
        d['clock_plan'] = {int(k): v for k, v in (d.get('clock_plan') or {}).items()}
        return cls(**d)

    def replace(self, **kw):
        d = {k: getattr(self, k) for k in self.FIELDS}
        d.update(kw)
        return Config(**d)

    def label(self):
        return '%s %s opts=%s order=%s drive=%s' % (self.logic, lexgen.argstr(self.prems, self.conc),
            {k: v for k, v in sorted(self.opts.items())}, self.order_seed, self.drive)

class Result:
    def __init__(self):
        self.outcome = None      # valid | refuted | open-flagged | premature | timeout | error:<T>
        self.error = None
        self.tab = None
        self.steps = []
        self.names = Names()
        self.clock = None
        self.timed_out = False
        self.raised_in = None

    def digest_events(self):
        return [self.outcome] + self.steps

def render_map(m):
    from pytableaux.proof.common import Node
    return render_node(Node.for_mapping(m))

def run(cfg: Config, monitor=None) -> Result:
    """Execute one tableau run. `monitor` (optional) gets on_created(tab,res), on_trunk(tab,res),
    on_step(tab,res,entry), on_finish(tab,res) callbacks; it may raise MonitorAbort."""
    res = Result()
    if monitor is not None and not isinstance(monitor, _Guarded):
        monitor = _Guarded(monitor)
    _verif.reset(cfg.order_seed, cfg.overrides)
    LexicalAbcMeta.__call__._cache.__init__(maxlen=cfg.cache)
    clock = VClock(cfg.clock_base, cfg.clock_plan)
    res.clock = clock
    arg = lexgen.build_argument(cfg.prems, cfg.conc)
    with clock_installed(clock):
        try:
            if cfg.late_setup:
                tab = Tableau(None, None, **cfg.opts)
                res.tab = tab
                if monitor is not None:
                    monitor.on_created(tab, res)
                tab.logic = cfg.logic
                tab.argument = arg
            else:
                tab = Tableau(cfg.logic, arg, **cfg.opts)
                res.tab = tab
                if monitor is not None:
                    monitor.on_created(tab, res)
            if monitor is not None:
                monitor.on_trunk(tab, res)
            if cfg.drive == 'build' and monitor is None:
                tab.build()
            elif cfg.drive == 'stepiter':
                for entry in tab.stepiter():
                    if monitor is not None:
                        monitor.on_step(tab, res, entry)
            else:
                while True:
                    entry = tab.step()
                    if not entry:
                        break
                    if monitor is not None:
                        monitor.on_step(tab, res, entry)
        except ProofTimeoutError as e:
            res.timed_out = True
            res.error = e
        except MonitorAbort as e:
            res.error = e
            res.outcome = 'aborted:' + str(e)
        except MonitorVerdict as e:
            res.error = e
            res.outcome = 'verdict:' + type(e).__name__
        except Exception as e:  # the system under test raised
            res.error = e
            res.outcome = 'error:' + type(e).__name__
        tab = res.tab
        if tab is not None:
            with frozen(clock):
                for entry in tab.history:
                    res.steps.append(step_record(res, entry))
                if res.outcome is None:
                    res.outcome = classify(tab, res)
            if monitor is not None and not (res.outcome or '').startswith(('error', 'aborted', 'verdict')):
                with frozen(clock):
                    monitor.on_finish(tab, res)
    return res

def history_records(tab):
    "Step records of a tableau's history with fresh first-seen names (same as Result.steps)."
    r = Result()
    r.tab = tab
    return [step_record(r, e) for e in tab.history]

class MonitorAbort(Exception):
    pass

class MonitorVerdict(Exception):
    "Base class for exceptions a monitor raises on purpose (a property clause failed)."

class HarnessError(BaseException):
    "A monitor (our code) raised unexpectedly; never to be confused with the system under test."

class _Guarded:
    "Wraps a monitor so that its own bugs surface as HarnessError."
    def __init__(self, mon):
        self._mon = mon
    def __getattr__(self, name):
        fn = getattr(self._mon, name)
        def call(*a, **kw):
            try:
                return fn(*a, **kw)
            except (MonitorAbort, MonitorVerdict):
                raise
            except Exception as e:
                import traceback
                raise HarnessError('monitor.%s raised %s: %s\n%s' % (name, type(e).__name__, e, traceback.format_exc())) from None
        return call

def classify(tab, res=None):
    if res is not None and res.timed_out:
        return 'timeout'
    if not tab.finished:
        return 'unfinished'
    if tab.premature:
        return 'premature'
    if tab.valid:
        return 'valid'
    if tab.invalid:
        if any(not is_flagged(b) for b in tab.open):
            return 'refuted'
        return 'open-flagged'
    return 'completed-noarg'

def _polish_param(p):
    k = 'c' if type(p).__name__ == 'Constant' else 'v'
    return (lexgen.CONSTS if k == 'c' else lexgen.VARS)[p.index] + (str(p.subscript) if p.subscript else '')

def _const_str(c):
    return _polish_param(c)

def step_record(res, entry):
    t = entry.target
    names = res.names
    node = t.get('node')
    nodes = t.get('nodes')
    adds = t.get('adds')
    c = t.get('constant')
    return [
        entry.rule.name,
        names.branch(t.branch),
        names.node(node) if node is not None else None,
        [names.node(n) for n in nodes] if nodes else None,
        [[render_map(n) if not hasattr(n, '_cov_mapping') else render_node(n) for n in grp] for grp in adds] if adds else None,
        _const_str(c) if c is not None else None,
        t.get('world')]

# ---------------------------------------------------------------------------
# library model -> R1 model

def mirror_model(sem, model):
    """Read a finished library model into an RModel (values by name). Reads the public
    attributes frames / R / constants only."""
    from .ref import refsem
    worlds = sorted(model.frames)
    R = set()
    for w1 in model.R:
        for w2 in model.R[w1]:
            R.add((w1, w2))
    consts = sorted(('c', c.index, c.subscript) for c in model.constants)
    m = refsem.RModel(worlds, R, consts)
    for w in worlds:
        fr = model.frames[w]
        for s, v in fr.atomics.items():
            m.atom[(w, lexgen.to_ast(s))] = str(v)
        for s, v in fr.opaques.items():
            m.opaque[(w, lexgen.to_ast(s))] = str(v)
        for p, interp in fr.predicates.items():
            pk = (p.index, p.subscript, p.arity)
            for params, v in interp.items():
                m.pred[(w, pk, tuple(('c', c.index, c.subscript) for c in params))] = str(v)
    return m

# ---------------------------------------------------------------------------
# wall-clock seam for code that renders (writers must not depend on when they run)

class WallClock:
    """Replaces, in every loaded pytableaux module, module-level names bound to the `time`
    module, the `datetime` module or the `datetime.datetime` / `datetime.date` classes by
    proxies driven by a virtual clock that jumps forward on every `advance()`. A no-op when
    the code under test does not look at the wall clock at all (the shipped writers do not)."""

    def __init__(self, start=1_900_000_000.0):
        self.now = start
        self.patched = []

    def advance(self, seconds=3661.0):
        self.now += seconds

    def __enter__(self):
        import datetime as _dt, sys, time as _time, types
        clock = self
        class FakeDateTime(_dt.datetime):
            @classmethod
            def now(cls, tz=None):
                return _dt.datetime.fromtimestamp(clock.now, tz)
            @classmethod
            def utcnow(cls):
                return _dt.datetime.utcfromtimestamp(clock.now)
            @classmethod
            def today(cls):
                return _dt.datetime.fromtimestamp(clock.now)
        class FakeDate(_dt.date):
            @classmethod
            def today(cls):
                return _dt.date.fromtimestamp(clock.now)
        fake_dt_mod = types.SimpleNamespace(**{k: getattr(_dt, k) for k in dir(_dt) if not k.startswith('__')})
        fake_dt_mod.datetime = FakeDateTime
        fake_dt_mod.date = FakeDate
        fake_time_mod = types.SimpleNamespace(**{k: getattr(_time, k) for k in dir(_time) if not k.startswith('__')})
        fake_time_mod.time = lambda: clock.now
        fake_time_mod.time_ns = lambda: int(clock.now * 1e9)
        fake_time_mod.monotonic = lambda: clock.now
        fake_time_mod.perf_counter = lambda: clock.now
        fake_time_mod.localtime = lambda secs=None: _time.localtime(clock.now if secs is None else secs)
        fake_time_mod.gmtime = lambda secs=None: _time.gmtime(clock.now if secs is None else secs)
        fake_time_mod.ctime = lambda secs=None: _time.ctime(clock.now if secs is None else secs)
        fake_time_mod.asctime = lambda t=None: _time.asctime(_time.localtime(clock.now) if t is None else t)
        fake_time_mod.strftime = lambda fmt, t=None: _time.strftime(fmt, _time.localtime(clock.now) if t is None else t)
        for name, mod in list(sys.modules.items()):
            if not name.startswith('pytableaux.') or mod is None or name.startswith('pytableaux.tools.timing'):
                continue
            for attr, val in list(vars(mod).items()):
                new = None
                if val is _time: new = fake_time_mod
                elif val is _dt: new = fake_dt_mod
                elif val is _dt.datetime: new = FakeDateTime
                elif val is _dt.date: new = FakeDate
                elif val is _time.time: new = fake_time_mod.time
                if new is not None:
                    self.patched.append((mod, attr, val))
                    setattr(mod, attr, new)
        return self

    def __exit__(self, *a):
        for mod, attr, val in self.patched:
            setattr(mod, attr, val)
        self.patched = []
