"""C02 — an 'invalid' verdict comes with a genuine countermodel (proofsim + the library's own model builder)."""
from __future__ import annotations

from pytableaux.proof.common import AccessNode, SentenceNode

from .. import diagnose, lexgen, proofsim, proofwl, proofcheck
from ..ref import refsem

ID = 'C02'
LEVEL = 'exploration'
SALTS = 8
GUARD_STEPS = 250
RULE = ('each run = one generated argument (propositional / modal / first-order with identity, 30% mutated library examples, '
        'biased to invalid ones) in one of the 57 logics (stratified) with is_build_models=True under seeded options, tie-break '
        'order and cache size; for every open branch without a quit-flag of every completed tableau the library model of that '
        'branch must give every sentence node a value matching its designation marker at its world, contain every access pair, '
        'and be a countermodel by the library\'s own test, without raising. distinct_nontrivial = distinct (logic, argument, '
        'history digest) with >=1 judged open branch and >=3 steps')
ASSUMPTIONS = [
    'the oracle is the library\'s own evaluator, as the property states (C08 pins that evaluator to the reference semantics)',
    'runs that hit the 250-step safety net are premature and skipped, exactly like branches carrying a quit flag',
]

def plan(tier):
    return dict(runs=4800 if tier == 'quick' else 120000, timeout=900 if tier == 'quick' else 5400)

def make_cfg(ctx):
    rng = ctx.rng('workload')
    logic = proofwl.pick_logic(rng, ctx.index, SALTS)
    prems, conc = proofwl.gen_case(rng, logic)
    if rng.random() < 0.3 and prems:
        prems = prems[:-1]          # fewer premises: more invalid arguments
    srng = ctx.rng('schedule')
    opts = proofwl.gen_opts(srng, models=True)
    opts['max_steps'] = GUARD_STEPS
    return proofsim.Config(logic, prems, conc, opts,
        order_seed=srng.choice((0, srng.getrandbits(32), srng.getrandbits(32))),
        cache=srng.choice(proofsim.CACHE_SIZES), drive=srng.choice(('build', 'step')))

def branch_verdict(tab, branch, arg):
    """None if the branch's model satisfies every node and is a countermodel; else (clause, site, msg)."""
    model = branch.model
    if model is None:
        return ('no-model', 'no-model', 'open branch has no model although is_build_models is on')
    Meta = tab.logic.Meta
    des = Meta.designated_values
    try:
        failing = []
        for node in branch:
            if isinstance(node, AccessNode):
                w1, w2 = node['world1'], node['world2']
                if not (w1 in model.R and w2 in model.R[w1]):
                    return ('model-unsat', 'access', 'access node w%sRw%s is not in the model\'s access relation' % (w1, w2))
                continue
            if not isinstance(node, SentenceNode):
                continue
            s = node['sentence']
            w = node.get('world')
            kw = {} if w is None else dict(world=w)
            v = model.value_of(s, **kw)
            d = node.get('designated')
            ok = (str(v) == 'T') if d is None else ((v in des) == bool(d))
            if not ok:
                failing.append((refsem.size(lexgen.to_ast(s)), node, v))
        if failing:
            # the innermost (smallest) falsified node is where the branch and its model part ways
            size, node, v = min(failing, key=lambda t: t[0])
            site = diagnose.node_shape(node)
            sem = refsem.get(Meta.name)
            if sem.base == 'FDE':
                # is it only the evaluator's linear order on {N,B}? R1 (Belnap lattice) decides
                rm = proofsim.mirror_model(sem, model)
                if all(diagnose.node_sat(sem, rm, n) is not False for n in branch):
                    site = 'evaluator-orders-N-below-B'
            return ('model-unsat', site,
                    'node %s gets value %s in the branch\'s own model' % (proofsim.render_node(node), v))
        if not model.is_countermodel_to(arg):
            return ('not-countermodel', 'is_countermodel_to', 'model satisfies all nodes yet is_countermodel_to() is false')
    except Exception as e:
        return ('model-raises', type(e).__name__, 'evaluating the branch model raised %s: %s' % (type(e).__name__, e))
    return None

def scope(logic, site):
    "Frame-dependent sites are keyed by the full logic, truth-functional / quantifier ones by its base."
    if site == 'access' or 'Possibility' in site or 'Necessity' in site:
        return logic
    return proofcheck.base_logic(logic)

def judge(cfg):
    res = proofsim.run(cfg)
    tab = res.tab
    out = res.outcome
    judged = 0
    if out.startswith('error'):
        # a raise while building models is C02's business; other raises belong to C09
        import traceback
        tb = ''.join(traceback.format_tb(res.error.__traceback__))
        if 'read_branch' in tb or '_gen_models' in tb or 'models/__init__' in tb:
            return ('model-raises', '%s|%s|%s' % ('model-raises', proofcheck.base_logic(cfg.logic), type(res.error).__name__),
                    'building the models raised %s: %s' % (type(res.error).__name__, res.error)), res, 0
        return None, res, 0
    if out != 'refuted':
        return None, res, 0
    arg = tab.argument
    for b in tab.open:
        if proofsim.is_flagged(b):
            continue
        judged += 1
        v = branch_verdict(tab, b, arg)
        if v is not None:
            clause, site, msg = v
            key = '%s|%s|%s' % (clause, scope(cfg.logic, site), site)
            return (clause, key, msg), res, judged
    return None, res, judged

def check_cfg(ctx, cfg, record=True):
    v, res, judged = judge(cfg)
    arg = lexgen.argstr(cfg.prems, cfg.conc)
    dg = proofcheck.kernel_digest(res)
    ctx.log(cfg.logic, arg, res.outcome, len(res.steps), dg, judged)
    if record:
        ctx.count('outcome.' + res.outcome.split(':')[0])
        ctx.count('evaluations')
        ctx.count('probe.open_branches_judged', judged)
        if judged and len(res.steps) >= 3:
            ctx.nontrivial((cfg.logic, arg, dg))
        ctx.distinct('fragments', (cfg.logic, proofwl.fragment_of(cfg.prems, cfg.conc)))
        if res.outcome == 'open-flagged' or (res.tab is not None and any(proofsim.is_flagged(b) for b in res.tab)):
            ctx.count('fault.world_or_const_limit_flag')
        if res.outcome == 'premature':
            ctx.count('fault.step_limit')
        ctx.sample(dict(logic=cfg.logic, argument=arg, opts=cfg.opts, order_seed=cfg.order_seed,
                        outcome=res.outcome, steps=len(res.steps), open_branches_judged=judged))
    if v is not None:
        clause, key, msg = v
        proofcheck.report(ctx, ID, clause, cfg, '%s %s: %s' % (cfg.logic, arg, msg), key)

def run(ctx):
    check_cfg(ctx, make_cfg(ctx))

def replay(ctx, spec):
    check_cfg(ctx, proofsim.Config.from_json(spec['cfg']))

def _key(cfg):
    v, _, _ = judge(cfg)
    return v[1] if v else None

def minimise(ctx, v):
    return proofcheck.minimise_violation(v, _key)
