"""C11 — declared logic extensions preserve validity (proofsim pairs over Meta.extension_of)."""
from __future__ import annotations

from .. import lexgen, proofsim, proofwl, proofcheck
from ..ref import refsem

ID = 'C11'
LEVEL = 'exploration'
SALTS = 8
GUARD_STEPS = 250
RULE = ('each run = one declared pair (weaker L\', stronger L) read from Meta.extension_of through the registry (every pair gets '
        'a floor share; 20% of runs use a pair from the transitive closure) and one argument in the vocabulary of L\' (no modal '
        'operator unless L\' is modal, no quantifier unless L\' is quantified; 40% mutated library examples, biased to arguments '
        'L\' proves; 12% deep unary modal chains, 20% modal contradictions under modal prefixes / disjunctions next to their own sub-sentences, 15% quantifier-witness-at-another-world arguments for modal quantified L\'), proved in L\' and in L under 2 independent seeded configurations each. Every 6th run is a slice of a systematic sweep of all unary modal chains (length <= 6, thorough <= 7) x 3 kernels x 2 conclusions on D -> T, the one declared pair whose rule sets are not nested, and of the first-order node shapes in small contexts (the enumeration of C01) on every declared pair of non-modal quantified logics (quick: a seed-dependent third of it). If any run in L\' is valid, no run '
        'in L may be refuted by a limit-free open branch, and on the propositional fragment every verdict in L must be valid. '
        'distinct_nontrivial = distinct (pair, argument) with a valid verdict in the weaker logic')
ASSUMPTIONS = [
    'limit-only outcomes are not verdicts',
    'a violated pair is attributed to a root cause with the reference semantics R1 (which side is wrong)',
]

SWEEP_EVERY = 6
SWEEP_PAIR = ('D', 'T')
def sweep_members(tier):
    "Unary modal chains (Necessity/Possibility/Negation prefixes) x kernel x conclusion."
    out = []
    for length in range(1, 7 if tier == 'quick' else 8):
        for code in range(3 ** length):
            for ki in (0, 2, 3):
                for ck in (0, 1):
                    out.append((length, code, ki, ck))
    return out

def sweep_case(member):
    length, code, ki, ck = member
    a, b = ('A', 0, 0), ('A', 1, 0)
    prem = proofwl.modal_prefix(code, length, proofwl._deep_kernels()[ki])
    conc = b if ck == 0 else ('O', 'Necessity', (('O', 'Possibility', (a,)),))
    return [prem], conc

def plan(tier):
    return dict(runs=2400 if tier == 'quick' else 40000, timeout=900 if tier == 'quick' else 7200)

_PAIRS = None
def pairs():
    global _PAIRS
    if _PAIRS is None:
        direct = proofwl.extension_pairs()
        up = {}
        for w, s in direct:
            up.setdefault(w, set()).add(s)
        closure = set()
        for w in up:
            seen, todo = set(), list(up[w])
            while todo:
                x = todo.pop()
                if x in seen: continue
                seen.add(x)
                todo.extend(up.get(x, ()))
            closure |= {(w, s) for s in seen}
        _PAIRS = (sorted(direct), sorted(closure - set(direct)))
    return _PAIRS

def make_case(ctx):
    rng = ctx.rng('workload')
    direct, trans = pairs()
    if trans and rng.random() < 0.2:
        weaker, stronger = trans[(ctx.index // SALTS) % len(trans)]
    else:
        weaker, stronger = direct[(ctx.index // SALTS) % len(direct)]
    wsem = refsem.get(weaker)
    r = rng.random()
    if wsem.modal and r < 0.12:
        return (weaker, stronger) + proofwl.deep_modal_template(rng)
    if wsem.modal and r > 0.8:
        return (weaker, stronger) + proofwl.modal_contradiction_template(rng)
    if wsem.modal and wsem.quantified and r < 0.27:
        return (weaker, stronger) + proofwl.witness_worlds_template(rng)
    prems, conc = proofwl.gen_case(rng, weaker, p_example=0.4)
    # restrict to the weaker logic's vocabulary
    for _ in range(10):
        sents = prems + [conc]
        if (wsem.modal or not any(refsem.has_modal(s) for s in sents)) and (wsem.quantified or not any(refsem.has_quant(s) for s in sents)):
            break
        prems, conc = proofwl.gen_case(rng, weaker, p_example=0.4)
    else:
        prems, conc = lexgen.gen_argument(rng, lexgen.Profile(rng))
    return weaker, stronger, prems, conc

def cfgs_for(srng, logic, prems, conc, n=2):
    out = []
    for k in range(n):
        opts = dict(proofwl.ALL_OPT_COMBOS[srng.randrange(4)])
        opts['is_build_models'] = True
        opts['max_steps'] = GUARD_STEPS
        out.append(proofsim.Config(logic, prems, conc, opts, order_seed=0 if k == 0 else srng.getrandbits(32),
            cache=srng.choice(proofsim.CACHE_SIZES), drive=srng.choice(('build', 'step'))))
    return out

def judge(ctx, weaker, stronger, prems, conc, record=True, ncfg=2):
    srng = ctx.rng('schedule')
    wr = [(c, proofsim.run(c)) for c in cfgs_for(srng, weaker, prems, conc, ncfg)]
    sr = None
    arg = lexgen.argstr(prems, conc)
    wvalid = [(c, r) for c, r in wr if r.outcome == 'valid']
    if wvalid:
        sr = [(c, proofsim.run(c)) for c in cfgs_for(srng, stronger, prems, conc, ncfg)]
    ctx.log(weaker, stronger, arg, [r.outcome for c, r in wr], None if sr is None else [r.outcome for c, r in sr])
    if record:
        ctx.count('evaluations', len(wr) + (len(sr) if sr else 0))
        ctx.distinct('pairs', (weaker, stronger))
        for c, r in wr:
            ctx.count('outcome_weaker.' + r.outcome.split(':')[0])
        if sr:
            for c, r in sr:
                ctx.count('outcome_stronger.' + r.outcome.split(':')[0])
            ctx.nontrivial((weaker, stronger, arg))
        ctx.sample(dict(weaker=weaker, stronger=stronger, argument=arg, weaker_outcomes=[r.outcome for c, r in wr],
                        stronger_outcomes=None if sr is None else [r.outcome for c, r in sr]))
    if not sr:
        return
    bad = [(c, r) for c, r in sr if r.outcome == 'refuted']
    if bad:
        key, why = proofcheck.explain_conflict(ctx.rng('r1'), wvalid[0], bad[0])
        if key.startswith('unexplained'):
            # R1 can fault neither verdict: each logic is right by its own semantics, so what
            # fails is the declaration that one extends the other
            key = 'declared-pair-does-not-hold|%s->%s' % (weaker, stronger)
            why = 'R1 can fault neither verdict within its bounds: the declared extension itself does not hold for this argument'
        spec = dict(weaker=weaker, stronger=stronger, prems=[lexgen.to_json(p) for p in prems], conc=lexgen.to_json(conc), argstr=arg, ncfg=ncfg)
        ctx.violation(ID + '/extension', 'extension|' + key,
            '%s proves %s but its declared extension %s refutes it; %s' % (weaker, arg, stronger, why), spec)

def run(ctx):
    if ctx.index % SWEEP_EVERY == SWEEP_EVERY - 1:
        # systematic sweep on the one declared pair whose rule sets are not nested (the serial
        # rule of D is replaced, not inherited, by the reflexive rule of T)
        members = sweep_members(ctx.tier)
        nsweep = max(1, plan(ctx.tier)['runs'] // SWEEP_EVERY)
        per = -(-len(members) // nsweep)
        j = ctx.index // SWEEP_EVERY
        for m in members[j * per:(j + 1) * per]:
            prems, conc = sweep_case(m)
            ctx.count('sweep_members')
            judge(ctx, SWEEP_PAIR[0], SWEEP_PAIR[1], prems, conc, ncfg=1)
        # first-order sweep: the quantifier node shapes in small contexts that C01 enumerates, on every
        # declared pair of non-modal quantified logics (quick: a seed-dependent third; thorough: all)
        from . import c01
        fpairs = [(w, st) for w, st in pairs()[0] if not refsem.get(w).modal and refsem.get(w).quantified and refsem.get(st).quantified]
        total = c01.FO_SIZE * len(fpairs)
        share = 3 if ctx.tier == 'quick' else 1
        per = -(-(total // share) // nsweep)
        off = (ctx.seed * 7919) % total
        for e in range(j * per, (j + 1) * per):
            e = (e * share + off) % total
            weaker, stronger = fpairs[e % len(fpairs)]
            prems, conc = c01.fo_case(e // len(fpairs))
            ctx.count('fo_sweep_members')
            judge(ctx, weaker, stronger, prems, conc, record=False, ncfg=1)
            if ctx.violations:
                return
        return
    judge(ctx, *make_case(ctx))

def replay(ctx, spec):
    judge(ctx, spec['weaker'], spec['stronger'], [lexgen.from_json(p) for p in spec['prems']], lexgen.from_json(spec['conc']), record=False, ncfg=spec.get('ncfg', 2))
