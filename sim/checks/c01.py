"""C01 — a 'valid' verdict is sound (proofsim families + R1 bounded countermodel search)."""
from __future__ import annotations

from .. import diagnose, lexgen, proofsim, proofwl, proofcheck
from ..ref import refsem

ID = 'C01'
LEVEL = 'exploration'
SALTS = 8
GUARD_STEPS = 250
RULE = ('every 3rd run = its slice of a systematic enumeration: every quantifier node shape ([negated] quantifier over a [negated] body from 6 bodies, 48 shapes) in 29 small first-order contexts, in one logic per distinct rule-implementation group (quick) / every quantified logic (thorough), one seeded configuration each, plus the propositional node shapes in literal contexts that C03 sweeps (soundness side) and a propositional scale sweep (n = 1..20 copies of one letter against n-1 / n / n+1 distinct letters, invalid by construction with a known counter-valuation); the other runs: each run = one generated argument (propositional / modal / first-order with identity; 30% mutated library examples) '
        'in one of the 57 logics (stratified), proved K times (quick 3, thorough 6) under different optimisation-option '
        'combinations, drive modes, seeded tie-break orders and cache sizes; whenever a run completes with every branch closed, '
        '(a) the bounded countermodel search of the reference semantics R1 (exhaustive valuations for propositional arguments; '
        'frames <=2 worlds exhaustive, 3 worlds sampled; domains of the argument\'s constants +1) and (b) every model the prover '
        'itself produced for the same argument on another schedule, re-evaluated in R1, are tried as countermodel witnesses. '
        'distinct_nontrivial = distinct (logic, argument) pairs with a valid verdict whose proof had >=1 branching or witness step')
ASSUMPTIONS = [
    'an alarm needs a countermodel re-verified by R1 (sim/ref/refsem.py); R1 = documented tables, per-world classical identity, constant-domain quantifiers over named objects',
    'countermodels larger than the search bounds are not found (a clean batch is evidence, not proof)',
]

def plan(tier):
    return dict(runs=2400 if tier == 'quick' else 48000, timeout=900 if tier == 'quick' else 7200)

def make_family(ctx):
    rng = ctx.rng('workload')
    logic = proofwl.pick_logic(rng, ctx.index, SALTS)
    prems, conc = proofwl.gen_case(rng, logic)
    srng = ctx.rng('schedule')
    K = 3 if ctx.tier == 'quick' else 6
    cfgs = []
    for k in range(K):
        opts = dict(proofwl.ALL_OPT_COMBOS[(srng.randrange(4) + k) % 4])
        opts['is_build_models'] = True
        opts['max_steps'] = GUARD_STEPS
        cfgs.append(proofsim.Config(logic, prems, conc, opts,
            order_seed=0 if k == 0 else srng.getrandbits(32), cache=srng.choice(proofsim.CACHE_SIZES),
            drive=srng.choice(('build', 'step', 'stepiter'))))
    return cfgs

# -- systematic part: every quantifier node shape in every small first-order context

def _fo_enum():
    x, m = ('v', 0, 0), ('c', 0, 0)
    F, G, R = (0, 0, 1), (1, 0, 1), (2, 0, 2)
    def neg(s): return ('O', 'Negation', (s,))
    def P(pk, *a): return ('P', pk, tuple(a))
    def Q(q, body): return ('Q', q, (0, 0), body)
    bodies = [P(F, x), ('O', 'Conjunction', (P(F, x), P(G, x))), ('O', 'Disjunction', (P(F, x), P(G, x))),
              ('O', 'MaterialConditional', (P(F, x), P(G, x))), ('O', 'Conditional', (P(F, x), P(G, x))), P(R, x, m)]
    shapes = []
    for body in bodies:
        for q in ('Universal', 'Existential'):
            for inner in (False, True):
                for outer in (False, True):
                    s = Q(q, neg(body) if inner else body)
                    shapes.append(neg(s) if outer else s)
    Fm, Gm = P(F, m), P(G, m)
    c8 = [Fm, neg(Fm), Q('Universal', P(F, x)), Q('Existential', P(F, x)), neg(Q('Universal', P(F, x))),
          neg(Q('Existential', P(F, x))), Q('Universal', neg(P(F, x))), Q('Existential', neg(P(F, x)))]
    contexts = [(('X',), c) for c in c8]
    contexts += [(('X', Fm), c) for c in (Gm, neg(Gm), Q('Existential', P(G, x)), Q('Universal', P(G, x)))]
    contexts += [(('X', neg(Fm)), c) for c in (Gm, Q('Existential', P(G, x)))]
    # ... next to a premise that forces the matrix to be classical on every object
    EM = Q('Universal', ('O', 'Disjunction', (P(F, x), neg(P(F, x)))))
    contexts += [(('X', EM, Fm), c) for c in (Gm, neg(Fm))] + [(('X', EM), c) for c in c8[:4]]
    contexts += [((p,), 'X') for p in c8] + [((), 'X')]
    return shapes, contexts
FO_SHAPES, FO_CONTEXTS = _fo_enum()
FO_SIZE = len(FO_SHAPES) * len(FO_CONTEXTS)
FO_EVERY = 3

_FO_REPS = None
def fo_representatives():
    "One quantified logic per distinct set of non-modal rule implementations (quantifier rules included)."
    global _FO_REPS
    if _FO_REPS is None:
        from pytableaux.logics import registry
        groups = {}
        for name in proofwl.LOGICS:
            if not refsem.get(name).quantified:
                continue
            key = []
            for r in registry(name).Rules.all():
                op = getattr(r, 'operator', None)
                if op is not None and op.name in ('Possibility', 'Necessity'): continue
                if any(c.__qualname__.startswith('access.') for c in r.__mro__): continue
                own = tuple(c.__module__ + '.' + c.__qualname__ for c in r.__mro__
                            if c.__module__.startswith('pytableaux') and any(not k.startswith('__') and k != '_abc_impl' for k in c.__dict__))
                key.append((r.name, own))
            groups.setdefault(tuple(sorted(key)), []).append(name)
        _FO_REPS = sorted(min(v) for v in groups.values())
    return _FO_REPS

def fo_case(e):
    shape = FO_SHAPES[e % len(FO_SHAPES)]
    prems, conc = FO_CONTEXTS[(e // len(FO_SHAPES)) % len(FO_CONTEXTS)]
    return [shape if p == 'X' else p for p in prems], (shape if conc == 'X' else conc)

def witness_steps(res):
    n = 0
    for st in res.steps:
        adds = st[4]
        if adds and len(adds) > 1:
            n += 1
        elif st[5] is not None or (adds and any('R' in x and x.startswith('w') for g in adds for x in g)):
            n += 1
    return n

def judge_family(ctx, cfgs, record=True):
    logic = cfgs[0].logic
    prems, conc = cfgs[0].prems, cfgs[0].conc
    sem = refsem.get(logic)
    arg = lexgen.argstr(prems, conc)
    results = [proofsim.run(c) for c in cfgs]
    ctx.log(logic, arg, [(r.outcome, len(r.steps)) for r in results])
    valids = [(c, r) for c, r in zip(cfgs, results) if r.outcome == 'valid']
    if record:
        for r in results:
            ctx.count('outcome.' + r.outcome.split(':')[0])
        ctx.count('evaluations', len(results))
        ctx.distinct('schedules', (logic, arg, tuple(proofcheck.kernel_digest(r) for r in results)))
        ctx.distinct('fragments', (logic, proofwl.fragment_of(prems, conc)))
    if not valids:
        if record:
            ctx.sample(dict(logic=logic, argument=arg, outcomes=[r.outcome for r in results]))
        return
    # (a) R1 bounded search
    cm = None
    source = None
    if all(refsem.is_propositional(s) for s in prems + [conc]):
        ok, m = refsem.truth_table_valid(sem, prems, conc, max_cells=6)
        if ok is False:
            cm, source = m, 'truth-table'
        elif ok is None:
            cm, st = refsem.find_countermodel(sem, prems, conc, ctx.rng('r1'), budget=1500)
            source = 'r1-search'
    else:
        cm, st = refsem.find_countermodel(sem, prems, conc, ctx.rng('r1'), budget=2500 if ctx.tier == 'quick' else 6000)
        source = 'r1-search'
        if record:
            ctx.count('r1_models_tried', st['models'])
    # (b) the prover's own models from other schedules, judged by R1
    if cm is None:
        for c, r in zip(cfgs, results):
            if r.outcome != 'refuted':
                continue
            for b in r.tab.open:
                if proofsim.is_flagged(b) or b.model is None:
                    continue
                try:
                    rm = proofsim.mirror_model(sem, b.model)
                    if sem.is_countermodel(rm, prems, conc):
                        cm, source = rm, 'prover-model-on-other-schedule'
                        break
                except KeyError:
                    continue
            if cm is not None:
                break
    if record:
        if any(witness_steps(r) for c, r in valids):
            ctx.nontrivial((logic, arg))
        ctx.count('probe.valid_verdicts_examined', len(valids))
        ctx.sample(dict(logic=logic, argument=arg, outcomes=[r.outcome for r in results], countermodel=source if cm else None))
    if cm is None:
        return
    assert sem.is_countermodel(cm, prems, conc)
    if record:
        ctx.count('probe.countermodel_source.' + source)
    cfg, res = valids[0]
    prop = all(refsem.is_propositional(s) for s in prems + [conc])
    cause = diagnose.unsound(sem, res.tab, cm, frames=False) if prop else diagnose.unsound_ext(sem, res.tab, cm)
    if cause.startswith(('rule=', 'closure=')):
        key = 'unsound|' + cause
    else:
        key = 'unsound|%s|%s|%s' % (logic, cause, proofcheck.shape(prems, conc))
    proofcheck.report(ctx, ID, 'unsound', cfg, '%s %s: reported valid, but R1 verifies the countermodel %s (found by %s; %s)' % (
        logic, arg, brief(cm), source, cause), key)

def brief(m):
    d = m.describe()
    return 'worlds=%s R=%s atoms=%s preds=%s' % (d['worlds'], d['R'], [(w, lexgen.ATOMS[i] + (str(s) if s else ''), v) for w, i, s, v in d['atoms']],
        [(w, tuple(pk), [tuple(p) for p in ps], v) for w, pk, ps, v in d['preds'] if v != 'F'][:8])

def run(ctx):
    if ctx.index % FO_EVERY == FO_EVERY - 1:
        # this run's slice of the first-order shape-in-context enumeration: quick = one logic per
        # rule-implementation group, thorough = every quantified logic; one seeded configuration each
        logics = fo_representatives() if ctx.tier == 'quick' else [l for l in proofwl.LOGICS if refsem.get(l).quantified]
        total = FO_SIZE * len(logics)
        nslices = max(1, plan(ctx.tier)['runs'] // FO_EVERY)
        per = -(-total // nslices)
        j = ctx.index // FO_EVERY
        off = (ctx.seed * 7919) % total
        srng = ctx.rng('schedule')
        for e in range(j * per, min(total, (j + 1) * per)):
            e = (e + off) % total
            prems, conc = fo_case(e // len(logics))
            opts = dict(proofwl.ALL_OPT_COMBOS[srng.randrange(4)])
            opts['is_build_models'] = False
            opts['max_steps'] = GUARD_STEPS
            ctx.count('enumerated_fo_cases')
            judge_family(ctx, [proofsim.Config(logics[e % len(logics)], prems, conc, opts,
                order_seed=srng.choice((0, srng.getrandbits(32))), cache=srng.choice(proofsim.CACHE_SIZES), drive='build')], record=False)
            if ctx.violations:
                return
        # propositional node shapes in literal contexts (the enumeration C03 sweeps), soundness side only
        from . import c03
        preps = c03.representatives()
        npc = c03.ENUM_SIZE * len(preps)
        per3 = -(-npc // nslices)
        for k in range(j * per3, min(npc, (j + 1) * per3)):
            k = (k + off) % npc
            logic = preps[k % len(preps)]
            prems, conc = c03.enumerated_case(k // len(preps))
            opts = dict(proofwl.ALL_OPT_COMBOS[srng.randrange(4)])
            opts['is_build_models'] = False
            opts['max_steps'] = GUARD_STEPS
            cfg = proofsim.Config(logic, prems, conc, opts, order_seed=srng.choice((0, srng.getrandbits(32))),
                cache=srng.choice(proofsim.CACHE_SIZES), drive='build')
            res = proofsim.run(cfg)
            ctx.count('enumerated_prop_cases')
            if res.outcome != 'valid':
                continue
            sem = refsem.get(logic)
            ok, m = refsem.truth_table_valid(sem, prems, conc, max_cells=6)
            if ok is False:
                cause = diagnose.unsound(sem, res.tab, m, frames=False)
                key = 'unsound|' + cause if cause.startswith(('rule=', 'closure=')) else 'unsound|%s|%s|%s' % (logic, cause, proofcheck.shape(prems, conc))
                proofcheck.report(ctx, ID, 'unsound', cfg, '%s %s: reported valid, but R1 verifies the countermodel %s (found by truth-table; %s)' % (
                    logic, lexgen.argstr(prems, conc), brief(m), cause), key)
                return
        # scale sweep (propositional): n = 1..20 copies of one letter against n-1 / n / n+1 distinct
        # letters, invalid by construction with a known counter-valuation (checked by R1's evaluator)
        reps = [l for l in fo_representatives()]
        cases = [c for c in proofwl.scale_cases() if not c[3]]
        nsc = len(reps) * len(cases)
        per2 = -(-nsc // nslices)
        for k in range(j * per2, min(nsc, (j + 1) * per2)):
            logic = reps[k % len(reps)]
            sem = refsem.get(logic)
            prems, conc, val = proofwl.scale_case(sem, cases[k // len(reps)])
            m = refsem.RModel()
            for a, v in val.items():
                m.atom[(0, a)] = v
            if not sem.is_countermodel(m, prems, conc):
                continue
            opts = dict(proofwl.ALL_OPT_COMBOS[srng.randrange(4)])
            opts['is_build_models'] = False
            opts['max_steps'] = 100
            cfg = proofsim.Config(logic, prems, conc, opts, order_seed=srng.choice((0, srng.getrandbits(32))),
                cache=srng.choice(proofsim.CACHE_SIZES), drive='build')
            res = proofsim.run(cfg)
            ctx.count('scale_cases')
            ctx.log('scale', logic, cases[k // len(reps)], res.outcome)
            if res.outcome == 'valid':
                cause = diagnose.unsound(sem, res.tab, m, frames=False)
                key = 'unsound|' + cause if cause.startswith(('rule=', 'closure=')) else 'unsound|%s|%s|scale' % (logic, cause)
                proofcheck.report(ctx, ID, 'unsound', cfg, '%s %s: reported valid, but the valuation that makes %s designated and the conclusion undesignated is a countermodel by R1 (%s)' % (
                    logic, lexgen.argstr(prems, conc)[:120], 'every premise', cause), key)
                return
        return
    judge_family(ctx, make_family(ctx))

def replay(ctx, spec):
    judge_family(ctx, [proofsim.Config.from_json(spec['cfg'])])

def minimise(ctx, v):
    from ..kernel import Ctx
    def key_of(c):
        cx = Ctx(ID, ctx.seed, ctx.tier, ctx.index, ctx.salt)
        judge_family(cx, [c], record=False)
        return cx.violations[0].key if cx.violations else None
    return proofcheck.minimise_violation(v, key_of, budget=80)
