"""C01 — a 'valid' verdict is sound (proofsim families + R1 bounded countermodel search)."""
from __future__ import annotations

from .. import diagnose, lexgen, proofsim, proofwl, proofcheck
from ..ref import refsem

ID = 'C01'
LEVEL = 'exploration'
SALTS = 8
GUARD_STEPS = 250
RULE = ('each run = one generated argument (propositional / modal / first-order with identity; 30% mutated library examples) '
        'in one of the 57 logics (stratified), proved K times (quick 3, thorough 6) under different optimisation-option '
        'combinations, drive modes, seeded tie-break orders and cache sizes; whenever a run completes with every branch closed, '
        '(a) the bounded countermodel search of the reference semantics R1 (exhaustive valuations for propositional arguments; '
        'frames <=2 worlds exhaustive, 3 worlds sampled; domains of the argument\'s constants +1) and (b) every model the prover '
        'itself produced for the same argument on another schedule, re-evaluated in R1, are tried as countermodel witnesses. '
        'distinct_nontrivial = distinct (logic, argument) pairs with a valid verdict whose proof had >=1 branching or witness step')
ASSUMPTIONS = [
    'an alarm needs a countermodel re-verified by R1 (sim/ref/refsem.py); R1 = documented tables, per-world classical identity, constant-domain quantifiers over named objects',
    'countermodels larger than the search bounds are not found (a clean batch is evidence, not proof)',
]

def plan(tier):
    return dict(runs=2400 if tier == 'quick' else 48000, timeout=900 if tier == 'quick' else 7200)

def make_family(ctx):
    rng = ctx.rng('workload')
    logic = proofwl.pick_logic(rng, ctx.index, SALTS)
    prems, conc = proofwl.gen_case(rng, logic)
    srng = ctx.rng('schedule')
    K = 3 if ctx.tier == 'quick' else 6
    cfgs = []
    for k in range(K):
        opts = dict(proofwl.ALL_OPT_COMBOS[(srng.randrange(4) + k) % 4])
        opts['is_build_models'] = True
        opts['max_steps'] = GUARD_STEPS
        cfgs.append(proofsim.Config(logic, prems, conc, opts,
            order_seed=0 if k == 0 else srng.getrandbits(32), cache=srng.choice(proofsim.CACHE_SIZES),
            drive=srng.choice(('build', 'step', 'stepiter'))))
    return cfgs

def witness_steps(res):
    n = 0
    for st in res.steps:
        adds = st[4]
        if adds and len(adds) > 1:
            n += 1
        elif st[5] is not None or (adds and any('R' in x and x.startswith('w') for g in adds for x in g)):
            n += 1
    return n

def judge_family(ctx, cfgs, record=True):
    logic = cfgs[0].logic
    prems, conc = cfgs[0].prems, cfgs[0].conc
    sem = refsem.get(logic)
    arg = lexgen.argstr(prems, conc)
    results = [proofsim.run(c) for c in cfgs]
    ctx.log(logic, arg, [(r.outcome, len(r.steps)) for r in results])
    valids = [(c, r) for c, r in zip(cfgs, results) if r.outcome == 'valid']
    if record:
        for r in results:
            ctx.count('outcome.' + r.outcome.split(':')[0])
        ctx.count('evaluations', len(results))
        ctx.distinct('schedules', (logic, arg, tuple(proofcheck.kernel_digest(r) for r in results)))
        ctx.distinct('fragments', (logic, proofwl.fragment_of(prems, conc)))
    if not valids:
        if record:
            ctx.sample(dict(logic=logic, argument=arg, outcomes=[r.outcome for r in results]))
        return
    # (a) R1 bounded search
    cm = None
    source = None
    if all(refsem.is_propositional(s) for s in prems + [conc]):
        ok, m = refsem.truth_table_valid(sem, prems, conc, max_cells=6)
        if ok is False:
            cm, source = m, 'truth-table'
        elif ok is None:
            cm, st = refsem.find_countermodel(sem, prems, conc, ctx.rng('r1'), budget=1500)
            source = 'r1-search'
    else:
        cm, st = refsem.find_countermodel(sem, prems, conc, ctx.rng('r1'), budget=2500 if ctx.tier == 'quick' else 6000)
        source = 'r1-search'
        if record:
            ctx.count('r1_models_tried', st['models'])
    # (b) the prover's own models from other schedules, judged by R1
    if cm is None:
        for c, r in zip(cfgs, results):
            if r.outcome != 'refuted':
                continue
            for b in r.tab.open:
                if proofsim.is_flagged(b) or b.model is None:
                    continue
                try:
                    rm = proofsim.mirror_model(sem, b.model)
                    if sem.is_countermodel(rm, prems, conc):
                        cm, source = rm, 'prover-model-on-other-schedule'
                        break
                except KeyError:
                    continue
            if cm is not None:
                break
    if record:
        if any(witness_steps(r) for c, r in valids):
            ctx.nontrivial((logic, arg))
        ctx.count('probe.valid_verdicts_examined', len(valids))
        ctx.sample(dict(logic=logic, argument=arg, outcomes=[r.outcome for r in results], countermodel=source if cm else None))
    if cm is None:
        return
    assert sem.is_countermodel(cm, prems, conc)
    if record:
        ctx.count('probe.countermodel_source.' + source)
    cfg, res = valids[0]
    prop = all(refsem.is_propositional(s) for s in prems + [conc])
    cause = diagnose.unsound(sem, res.tab, cm, frames=False) if prop else diagnose.unsound_ext(sem, res.tab, cm)
    if cause.startswith(('rule=', 'closure=')):
        key = 'unsound|' + cause
    else:
        key = 'unsound|%s|%s|%s' % (logic, cause, proofcheck.shape(prems, conc))
    proofcheck.report(ctx, ID, 'unsound', cfg, '%s %s: reported valid, but R1 verifies the countermodel %s (found by %s; %s)' % (
        logic, arg, brief(cm), source, cause), key)

def brief(m):
    d = m.describe()
    return 'worlds=%s R=%s atoms=%s preds=%s' % (d['worlds'], d['R'], [(w, lexgen.ATOMS[i] + (str(s) if s else ''), v) for w, i, s, v in d['atoms']],
        [(w, tuple(pk), [tuple(p) for p in ps], v) for w, pk, ps, v in d['preds'] if v != 'F'][:8])

def run(ctx):
    judge_family(ctx, make_family(ctx))

def replay(ctx, spec):
    judge_family(ctx, [proofsim.Config.from_json(spec['cfg'])])

def minimise(ctx, v):
    from ..kernel import Ctx
    def key_of(c):
        cx = Ctx(ID, ctx.seed, ctx.tier, ctx.index, ctx.salt)
        judge_family(cx, [c], record=False)
        return cx.violations[0].key if cx.violations else None
    return proofcheck.minimise_violation(v, key_of, budget=80)
