"""C18 — ordered-set containers stay a set and a sequence at once (contsim)."""
from __future__ import annotations
from collections import Counter
from .. import contsim
from ..kernel import Violation, ddmin

ID = 'C18'
LEVEL = 'exploration'
SALTS = 1
NEEDS_LOGICS = False
RULE = ('each run = one seeded history of <=40 operations (append/add/insert/wedge/remove/discard/pop/'
        'del+assign by index and slice/sort/reverse/clear/copy/set algebra) over a 6-value universe on '
        'qset, linqset or Predicates, with veto faults toggled at seeded positions; judged after every '
        'operation against a list-without-duplicates model. distinct_nontrivial = distinct '
        '(container, operation, accepted|raised|vetoed, length-before) situations in which the '
        'operation met a non-empty container')
ASSUMPTIONS = [
    'the list model defines the expected state only for operations the container accepts; rejected bulk operations need only leave a consistent ordered set',
    'values are small ints (qset, linqset) or six predicates incl. an arity conflict pair and Identity (Predicates)',
]
COMPONENTS = dict(real='pytableaux.tools.hybrids.qset, pytableaux.tools.linked.linqset/linkseq, pytableaux.lang.collect.Predicates (subclassed only to inject vetoes at _hook_cast/_hook_check)',
                  stub='none')

def plan(tier):
    return dict(runs=24000 if tier == 'quick' else 2400000, timeout=240 if tier == 'quick' else 5400)

def make_spec(ctx):
    rng = ctx.rng('workload')
    kind = contsim.KINDS[ctx.index % 3]
    n = rng.choice([3, 5, 8, 12, 20, 40])
    faults = rng.random() < 0.5
    return dict(kind=kind, ops=contsim.gen_ops(rng, kind, n, faults))

def judge(ctx, spec, record=True):
    log = []
    stats = Counter()
    res = contsim.execute(spec, log, stats)
    if record:
        for k, v in stats.items():
            ctx.count(k if k.startswith('fault.') else 'ops.' + k if k.startswith('op.') else k, v)
        ctx.count('evaluations', stats['ops'])
        prev_len = 0
        for step, op, outcome, seq in log:
            if prev_len:
                ctx.nontrivial((spec['kind'], op[0], outcome if outcome in ('ok', 'Veto') else 'raised', min(prev_len, 4)))
            ctx.distinct('op_outcomes', (spec['kind'], op[0], outcome))
            prev_len = len(seq)
        for k in (1, 2, 3):
            ctx.distinct('history_prefixes_len%d' % k, (spec['kind'], str(spec['ops'][:k])))
        ctx.sample(dict(kind=spec['kind'], ops=spec['ops'][:12], final=log[-1][3] if log else []))
    for e in log:
        ctx.log(*e)
    if res is not None:
        clause, opname, msg, step = res
        key = '%s|%s|%s' % (spec['kind'], opname, clause)
        spec2 = dict(kind=spec['kind'], ops=spec['ops'][:step + 1])
        return ctx.violation('C18/' + clause, key, msg, spec2)
    return None

def run(ctx):
    judge(ctx, make_spec(ctx))

def replay(ctx, spec):
    judge(ctx, spec)

def minimise(ctx, v):
    kind = v.spec['kind']
    def test(ops):
        r = contsim.execute(dict(kind=kind, ops=ops))
        return r is not None and '%s|%s|%s' % (kind, r[1], r[0]) == v.key
    ops = ddmin(v.spec['ops'], test)
    # shrink integer arguments towards 0
    changed = True
    while changed:
        changed = False
        for i, op in enumerate(ops):
            for j in range(1, len(op)):
                a = op[j]
                cands = []
                if isinstance(a, int) and not isinstance(a, bool) and a != 0:
                    cands = [0, a // 2] if abs(a) > 1 else [0]
                elif isinstance(a, list) and a and all(isinstance(x, (int, type(None))) for x in a):
                    cands = [a[:-1]] if op[0] != 'setslice' or j == 2 else []
                for cnd in cands:
                    ops2 = [list(o) for o in ops]
                    ops2[i][j] = cnd
                    try:
                        ok = test(ops2)
                    except Exception:
                        ok = False
                    if ok:
                        ops = ops2
                        changed = True
                        break
    r = contsim.execute(dict(kind=kind, ops=ops))
    from ..kernel import digest_of
    return Violation('C18/' + r[0], v.key, r[2], dict(kind=kind, ops=ops), digest_of(ops))
