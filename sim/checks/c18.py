"""C18 — ordered-set containers stay a set and a sequence at once (contsim)."""
from __future__ import annotations
from collections import Counter
from .. import contsim
from ..kernel import Violation, ddmin

ID = 'C18'
LEVEL = 'exploration'
SALTS = 1
NEEDS_LOGICS = False
RULE = ('each run = its slice of the exhaustive enumeration of all operation histories of depth 3 (thorough: 4) over a 46-operation alphabet '
        '(50 for linqset; values 0-2, for Predicates incl. an arity-conflict pair) on each container, plus one seeded history of <=40 operations (append/add/insert/wedge/remove/discard/pop/'
        'del+assign by index and slice/sort/reverse/clear/copy/set algebra) over a 6-value universe on '
        'qset, linqset or Predicates, with veto faults toggled at seeded positions; judged after every '
        'operation against a list-without-duplicates model. distinct_nontrivial = distinct '
        '(container, operation, accepted|raised|vetoed, length-before) situations in which the '
        'operation met a non-empty container')
ASSUMPTIONS = [
    'the list model defines the expected state only for operations the container accepts; rejected bulk operations need only leave a consistent ordered set',
    'values are small ints (qset, linqset) or six predicates incl. an arity conflict pair and Identity (Predicates)',
]
COMPONENTS = dict(real='pytableaux.tools.hybrids.qset, pytableaux.tools.linked.linqset/linkseq, pytableaux.lang.collect.Predicates (subclassed only to inject vetoes at _hook_cast/_hook_check)',
                  stub='none')

def plan(tier):
    return dict(runs=24000 if tier == 'quick' else 2400000, timeout=900 if tier == 'quick' else 5400)

# -- exhaustive part: every history over a small operation alphabet up to a depth bound

def _alphabet(kind):
    N = None
    a = [['append', v] for v in (0, 1, 2)] + [['add', v] for v in (0, 1)]
    a += [['insert', i, v] for i in (0, 1, -1) for v in (0, 2)]
    a += [['setitem', i, v] for i in (0, -1) for v in (0, 1, 2)]
    a += [['delitem', i] for i in (0, -1, 1)] + [['pop', i] for i in (-1, 0)]
    a += [['remove', v] for v in (0, 1)] + [['discard', v] for v in (0, 2)]
    a += [['reverse'], ['clear'], ['sort', False], ['sort', True], ['copy']]
    a += [['extend', [1, 0]], ['extend', [2, 2]], ['ior', [0, 1]], ['iand', [0, 1]], ['isub', [0]], ['ixor', [0, 1]]]
    a += [['setslice', [N, N, N], [2, 1]], ['setslice', [1, N, N], [0]], ['setslice', [N, N, 2], [2]],
          ['setslice', [N, N, -1], [1, 0]], ['setslice', [0, 1, N], []]]
    a += [['delslice', [N, N, 2]], ['delslice', [1, N, N]], ['self_ixor'], ['getslice', [N, N, -1]]]
    if kind == 'linqset':
        a += [['wedge', 0, 1, 1], ['wedge', 1, 0, -1], ['wedge', 2, 0, 1], ['wedge', 0, 0, 1]]
    return a
ALPHABETS = {k: _alphabet(k) for k in contsim.KINDS}

def enum_depth(tier):
    return 3 if tier == 'quick' else 4

def enum_total(depth):
    return sum(len(ALPHABETS[k]) ** depth for k in contsim.KINDS)

def enum_spec(code, depth):
    for k in contsim.KINDS:
        n = len(ALPHABETS[k]) ** depth
        if code < n:
            ops = []
            for _ in range(depth):
                code, d = divmod(code, len(ALPHABETS[k]))
                ops.append([list(x) if isinstance(x, list) else x for x in ALPHABETS[k][d]])
            return dict(kind=k, ops=ops)
        code -= n
    return None

def make_spec(ctx):
    rng = ctx.rng('workload')
    kind = contsim.KINDS[ctx.index % 3]
    n = rng.choice([3, 5, 8, 12, 20, 40])
    faults = rng.random() < 0.5
    return dict(kind=kind, ops=contsim.gen_ops(rng, kind, n, faults))

def judge(ctx, spec, record=True):
    log = []
    stats = Counter()
    res = contsim.execute(spec, log, stats)
    if record:
        for k, v in stats.items():
            ctx.count(k if k.startswith('fault.') else 'ops.' + k if k.startswith('op.') else k, v)
        ctx.count('evaluations', stats['ops'])
        prev_len = 0
        for step, op, outcome, seq in log:
            if prev_len:
                ctx.nontrivial((spec['kind'], op[0], outcome if outcome in ('ok', 'Veto') else 'raised', min(prev_len, 4)))
            ctx.distinct('op_outcomes', (spec['kind'], op[0], outcome))
            prev_len = len(seq)
        for k in (1, 2, 3):
            ctx.distinct('history_prefixes_len%d' % k, (spec['kind'], str(spec['ops'][:k])))
        ctx.sample(dict(kind=spec['kind'], ops=spec['ops'][:12], final=log[-1][3] if log else []))
    for e in log:
        ctx.log(*e)
    if res is not None:
        clause, opname, msg, step = res
        key = '%s|%s|%s' % (spec['kind'], opname, clause)
        spec2 = dict(kind=spec['kind'], ops=spec['ops'][:step + 1])
        return ctx.violation('C18/' + clause, key, msg, spec2)
    return None

def run(ctx):
    depth = enum_depth(ctx.tier)
    total = enum_total(depth)
    per = -(-total // plan(ctx.tier)['runs'])
    for code in range(ctx.index * per, min(total, (ctx.index + 1) * per)):
        spec = enum_spec(code, depth)
        ctx.count('enumerated_histories')
        if contsim.execute(spec) is not None:
            judge(ctx, spec, record=False)
            return
    judge(ctx, make_spec(ctx))

def replay(ctx, spec):
    judge(ctx, spec)

def minimise(ctx, v):
    kind = v.spec['kind']
    def test(ops):
        r = contsim.execute(dict(kind=kind, ops=ops))
        return r is not None and '%s|%s|%s' % (kind, r[1], r[0]) == v.key
    ops = ddmin(v.spec['ops'], test)
    # shrink integer arguments towards 0
    changed = True
    while changed:
        changed = False
        for i, op in enumerate(ops):
            for j in range(1, len(op)):
                a = op[j]
                cands = []
                if isinstance(a, int) and not isinstance(a, bool) and a != 0:
                    cands = [0, a // 2] if abs(a) > 1 else [0]
                elif isinstance(a, list) and a and all(isinstance(x, (int, type(None))) for x in a):
                    cands = [a[:-1]] if op[0] != 'setslice' or j == 2 else []
                for cnd in cands:
                    ops2 = [list(o) for o in ops]
                    ops2[i][j] = cnd
                    try:
                        ok = test(ops2)
                    except Exception:
                        ok = False
                    if ok:
                        ops = ops2
                        changed = True
                        break
    r = contsim.execute(dict(kind=kind, ops=ops))
    from ..kernel import digest_of
    return Violation('C18/' + r[0], v.key, r[2], dict(kind=kind, ops=ops), digest_of(ops))
