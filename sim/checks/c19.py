"""C19 — every finished tableau renders, deterministically and faithfully (proofsim final states)."""
from __future__ import annotations

from pytableaux.proof import TabWriter
from pytableaux.proof.common import AccessNode, ClosureNode, QuitFlagNode, SentenceNode

from .. import lexgen, proofsim, proofwl, proofcheck

ID = 'C19'
LEVEL = 'exploration'
SALTS = 8
FORMATS = ('text', 'html', 'latex')
NOTATIONS = ('polish', 'standard')
RULE = ('each run = one generated argument (all fragments, 30% mutated library examples) in one of the 57 logics (stratified), '
        'finished normally or cut short at a seeded step limit (premature with a tree), under a seeded schedule; the finished '
        'tableau is rendered in every registered format (text, html, latex) x notation (polish, standard) with seeded writer '
        'options (fulldoc, wrapper, inline_css, classes / wrap_classes as tuple, list, set or string), by long-lived writers that are all constructed first and then render in seeded interleavings, twice each, and by a fresh writer: no exception, identical output; the text '
        'rendering is parsed back into structures whose root-to-leaf token lists must equal, leaf by leaf in tree order, the '
        'tokens expected from the branch (written sentence, " w<k>", "[+]"/"[-]", "w<i>Rw<j>", exactly one "(x)" on closed '
        'branches and none on open ones). distinct_nontrivial = distinct (logic, outcome class, #branches>1, has access '
        'node, has quit flag, has closure) tableau populations rendered')
ASSUMPTIONS = [
    'the written form of a sentence is the writer\'s own LexWriter output (write/parse fidelity is C12, not applicable here); the check concerns which nodes, worlds, markers and closure marks appear where',
    'timed-out tableaux have no tree and are outside the statement',
]
COMPONENTS = dict(real='pytableaux.proof.writers (jinja text writer, doctree html/latex translators, templates), lang.writing', stub='node/branch hash provider (seeded); wall clock seam: any time / datetime name in a pytableaux module is driven by a virtual clock that jumps between the renders')

def plan(tier):
    return dict(runs=1600 if tier == 'quick' else 48000, timeout=900 if tier == 'quick' else 7200)

def make_cfg(ctx):
    rng = ctx.rng('workload')
    logic = proofwl.pick_logic(rng, ctx.index, SALTS)
    prems, conc = proofwl.gen_case(rng, logic)
    srng = ctx.rng('schedule')
    opts = proofwl.gen_opts(srng)
    frng = ctx.rng('faults')
    opts['max_steps'] = frng.choice((1, 2, 3, 5, 8, 13, 30)) if frng.random() < 0.35 else 120
    return proofsim.Config(logic, prems, conc, opts, order_seed=srng.choice((0, srng.getrandbits(32))),
                           cache=srng.choice(proofsim.CACHE_SIZES), drive='build')

def expected_tokens(lw, branch):
    toks = []
    for n in branch:
        if isinstance(n, ClosureNode):
            toks.append('(x)')
        elif isinstance(n, AccessNode):
            toks.append('w%sRw%s' % (n['world1'], n['world2']))
        elif isinstance(n, SentenceNode):
            t = lw(n['sentence'])
            if n.get('world') is not None:
                t += ' w%s' % n['world']
            if n.get('designated') is True:
                t += ' [+]'
            elif n.get('designated') is False:
                t += ' [-]'
            toks.append(t)
        elif isinstance(n, QuitFlagNode):
            toks.append('')
        elif n.get('ellipsis'):
            toks.append(' ...')
        else:
            toks.append('')
    return toks

def parse_text(text):
    """Parse the text rendering into a tree of token lists. Returns root = (tokens, children)."""
    stack = []     # (column, node)
    root = None
    for line in text.split('\n'):
        body = line.lstrip(' |')
        if not body.strip():
            continue
        col = len(line) - len(body)
        if body.startswith('-- '):
            body = body[3:]
            col += 3
        if body.endswith(' .'):
            body = body[:-2]
        toks = body.split('; ')
        if toks and toks[-1] == '':
            toks = toks[:-1]
        # a trailing "(x)" comes glued after the last "; "
        toks = [t[:-2] if t.endswith(' *') else t for t in toks]
        node = (toks, [])
        while stack and stack[-1][0] >= col:
            stack.pop()
        if stack:
            stack[-1][1][1].append(node)
        else:
            if root is not None:
                raise ValueError('two roots in the text rendering')
            root = node
        stack.append((col, node))
    return root

def leaf_paths(node, prefix=()):
    toks, children = node
    cur = prefix + tuple(toks)
    if not children:
        yield cur
    else:
        for c in children:
            yield from leaf_paths(c, cur)

def tree_branches(tab):
    "Branches in the order of the tree's leaves (the tree itself is C16's subject)."
    byid = {id(b): b for b in tab}
    out = []
    def walk(t):
        if not t.children:
            out.append(byid.get(t.branch_id))
        for c in t.children:
            walk(c)
    walk(tab.tree)
    return out

def check_render(tab, rng):
    """None or (site, message). Long-lived writers: all are constructed first (seeded order), then
    each renders, then -- "an hour later" on the virtual wall clock, in another seeded order --
    each renders again, and finally a fresh writer per combination renders "forty days later"."""
    outs = {}
    combos = [(fmt, notn) for fmt in FORMATS for notn in NOTATIONS]
    optmap = {}
    for fmt, notn in combos:
        opts = {}
        if fmt != 'text' and rng.random() < 0.5:
            opts['fulldoc'] = rng.random() < 0.5
        if fmt == 'html' and rng.random() < 0.6:
            opts.update(wrapper=rng.random() < 0.6, inline_css=rng.random() < 0.3)
            # class options in the container types callers use: tuple, list, set, string
            r = rng.random()
            if r < 0.5:
                opts['classes'] = rng.choice((('x',), ['x'], ['x', 'y'], {'x'}, 'x y'))
            if rng.random() < 0.3:
                opts['wrap_classes'] = rng.choice((('z',), ['z'], ['z', 'w']))
        optmap[fmt, notn] = opts
    cur = None
    try:
        with proofsim.WallClock() as wall:
            order = list(combos)
            rng.shuffle(order)
            writers = {}
            for k in order:
                cur = k
                writers[k] = TabWriter(k[0], k[1], **optmap[k])
            first, second, third = {}, {}, {}
            rng.shuffle(order)
            for k in order:
                cur = k
                first[k] = writers[k](tab)
            wall.advance()
            rng.shuffle(order)
            for k in order:
                cur = k
                second[k] = writers[k](tab)
            wall.advance(86400.0 * 40)
            for k in order:
                cur = k
                third[k] = TabWriter(k[0], k[1], **optmap[k])(tab)
    except Exception as e:
        site = proofcheck.raise_site(e)
        return ('raises|%s|%s' % (cur[0], site), 'rendering %s/%s (opts %s) raised %s: %s' % (cur[0], cur[1], optmap[cur], type(e).__name__, e))
    for k in combos:
        fmt, notn = k
        a, b, c = first[k], second[k], third[k]
        if not isinstance(a, str):
            return ('not-text|' + fmt, 'writer returned %s' % type(a).__name__)
        if a != b or a != c:
            return ('nondeterministic|' + fmt, 'rendering %s/%s (opts %s) %s gives different output' % (
                fmt, notn, optmap[k], 'twice with one writer' if a != b else 'with a long-lived and with a fresh writer'))
        outs[fmt, notn] = (a, writers[k])
    for notn in NOTATIONS:
        text, w = outs['text', notn]
        try:
            root = parse_text(text)
        except Exception as e:
            return ('unfaithful|text|structure', 'text rendering (%s) cannot be read back: %s' % (notn, e))
        if root is None:
            if len(tab) and any(len(b) for b in tab):
                return ('unfaithful|text|empty', 'text rendering (%s) is empty for a tableau with nodes' % notn)
            continue
        paths = list(leaf_paths(root))
        branches = tree_branches(tab)
        if len(paths) != len(branches):
            return ('unfaithful|text|branches', 'text rendering (%s) shows %d branches, the tableau has %d' % (notn, len(paths), len(branches)))
        for i, (p, b) in enumerate(zip(paths, branches)):
            exp = expected_tokens(w.lw, b)
            got = list(p)
            # a quit flag renders as an empty token, which split() cannot see at the end of a line
            exp_cmp = [t for t in exp if t != '']
            got_cmp = [t for t in got if t != '']
            if got_cmp != exp_cmp:
                k = next((j for j, (x, y) in enumerate(zip(got_cmp, exp_cmp)) if x != y), min(len(got_cmp), len(exp_cmp)))
                what = 'closure-mark' if '(x)' in (got_cmp[k:k + 1] + exp_cmp[k:k + 1]) else 'node'
                return ('unfaithful|text|' + what, 'text rendering (%s), branch %d: token %d is %r, expected %r (branch tokens %s)' % (
                    notn, i, k, got_cmp[k] if k < len(got_cmp) else None, exp_cmp[k] if k < len(exp_cmp) else None, exp_cmp[:12]))
            if got_cmp.count('(x)') != (1 if b.closed else 0):
                return ('unfaithful|text|closure-mark', 'branch %d closed=%s but %d closure marks rendered' % (i, b.closed, got_cmp.count('(x)')))
    return None

def judge(ctx, cfg, record=True):
    res = proofsim.run(cfg)
    tab = res.tab
    arg = lexgen.argstr(cfg.prems, cfg.conc)
    ctx.log(cfg.logic, arg, res.outcome, len(res.steps))
    if res.outcome.startswith('error') or tab is None or not tab.finished or tab.tree is None:
        if record:
            ctx.count('skipped.' + res.outcome.split(':')[0])
        return
    r = check_render(tab, ctx.rng('writer-options'))
    if record:
        ctx.count('evaluations', len(FORMATS) * len(NOTATIONS) * 3)
        ctx.count('outcome.' + res.outcome)
        if res.outcome == 'premature':
            ctx.count('fault.step_limit')
        has_access = any(isinstance(n, AccessNode) for b in tab for n in b)
        has_quit = any(isinstance(n, QuitFlagNode) for b in tab for n in b)
        ctx.nontrivial((cfg.logic, res.outcome, len(tab) > 1, has_access, has_quit, any(b.closed for b in tab)))
        ctx.count('probe.quit_flag_rendered', int(has_quit))
        ctx.count('probe.access_nodes_rendered', int(has_access))
        ctx.sample(dict(logic=cfg.logic, argument=arg, outcome=res.outcome, branches=len(tab), steps=len(res.steps)))
    if r is not None:
        site, msg = r
        proofcheck.report(ctx, ID, site.split('|')[0], cfg, '%s %s (%s): %s' % (cfg.logic, arg, res.outcome, msg), site)

def run(ctx):
    judge(ctx, make_cfg(ctx))

def replay(ctx, spec):
    judge(ctx, proofsim.Config.from_json(spec['cfg']), record=False)

def _key(cfg):
    from ..kernel import Ctx
    cx = Ctx(ID, 0, 'quick', 0, 0)
    judge(cx, cfg, record=False)
    return cx.violations[0].key if cx.violations else None

def minimise(ctx, v):
    return proofcheck.minimise_violation(v, _key, budget=60)
