"""C03 — propositional arguments are decided exactly, without limits (proofsim + R1 truth tables)."""
from __future__ import annotations
from .. import diagnose, lexgen, proofsim, proofwl, proofcheck
from ..ref import refsem

ID = 'C03'
LEVEL = 'exploration'
SALTS = 8
STEP_BUDGET = 1200
MAX_SIZE = 20
RULE = ('odd runs sweep a systematic enumeration: every node shape ([negated] operator over literals and double negations, 94 shapes) in every '
        'small literal context (as premise with 0-2 literal premises and a literal conclusion; as conclusion with 0-2 literal '
        'premises; 55 contexts), plus a scale sweep (n = 1..20 copies of one letter in a disjunction / conjunction against n-1, n, n+1 distinct letters, invalid and valid variants, answer known by construction); the quick tier sweeps all of it in one logic per distinct set of truth-functional rule implementations '
        '(groups read from the rule classes), the thorough tier in every logic; even runs = one generated argument over sentence letters and truth-functional operators only '
        '(<=4 letters, depth<=3 quick / <=4 thorough, total size<=20, <=2 biconditionals, 0-3 premises, 30% mutated library examples; 10% with 5-9 further premises repeating one literal alone or as a conjunct) in one of '
        'the 57 logics (stratified), one of the 4 optimisation-option combinations, a seeded tie-break '
        'order and cache size, no step/time limit, stepped by the simulator (lost-tick monitor; a 1200-step budget only marks a run inconclusive); '
        'verdict compared with exhaustive truth-table enumeration in the reference semantics R1. '
        'distinct_nontrivial = distinct (logic, argument) pairs whose proof took >=2 steps')
ASSUMPTIONS = [
    'R1 tables (sim/ref/refsem.py) transcribe the documented semantics; they coincide with the library tables except for the FDE family (Belnap lattice vs linear order at {N,B})',
    'non-termination is alarmed only by the sound lost-tick criterion (a ticking rule re-applied to the same node on the same branch); exceeding the 1200-step budget is counted as inconclusive',
]

def plan(tier):
    return dict(runs=4000 if tier == 'quick' else 480000, timeout=900 if tier == 'quick' else 21600)

class Budget:
    """Bounded-progress monitor. A ticking rule applied twice to the same node on the same branch
    means the tick did not consume the node: the proof can never finish (sound criterion). Merely
    exceeding the step budget is inconclusive (exponential but finite proofs exist) and only counted."""
    def __init__(self, limit=None):
        self.n = 0
        self.seen = set()
        self.limit = limit or STEP_BUDGET
    def on_created(self, tab, res): pass
    def on_trunk(self, tab, res): pass
    def on_step(self, tab, res, entry):
        self.n += 1
        t = entry.target
        node = t.get('node')
        if entry.rule.ticking and node is not None:
            k = (entry.rule.name, res.names.node(node), res.names.branch(t.branch))
            if k in self.seen:
                raise proofsim.MonitorAbort('lost-tick %s node#%s branch#%s' % k)
            self.seen.add(k)
        if self.n > self.limit:
            raise proofsim.MonitorAbort('step-budget')
    def on_finish(self, tab, res): pass

def small_enough(prems, conc):
    sents = list(prems) + [conc]
    if sum(refsem.size(s) for s in sents) > MAX_SIZE:
        return False
    nb = sum(1 for s in sents for x in refsem.walk(s) if x[0] == 'O' and x[1] in ('Biconditional', 'MaterialBiconditional'))
    return nb <= 2

# -- systematic part: every node shape (operator x negated) in every small literal context

BINOPS = ('Conjunction', 'Disjunction', 'MaterialConditional', 'MaterialBiconditional', 'Conditional', 'Biconditional')
A_, B_ = ('A', 0, 0), ('A', 1, 0)
def _neg(x): return ('O', 'Negation', (x,))
LITS = (A_, B_, _neg(A_), _neg(B_))

def _shapes():
    out = []
    nn = _neg(_neg(A_))
    for op in BINOPS:
        for l, r in ((A_, B_), (B_, A_), (A_, A_), (_neg(A_), B_), (A_, _neg(B_)), (nn, B_), (B_, nn)):
            s = ('O', op, (l, r))
            out.append(s); out.append(_neg(s))
    for op, ls in (('Assertion', (A_, _neg(A_), nn)), ('Negation', (A_, _neg(A_)))):
        for l in ls:
            s = ('O', op, (l,))
            out.append(s); out.append(_neg(s))
    return out
SHAPES = _shapes()

def _contexts():
    "(premises, conclusion) templates around a shape X."
    out = []
    for c in LITS:
        out.append((('X',), c))                     # X |- literal
        for p in LITS:
            out.append((('X', p), c))               # X, literal |- literal
    for p in (None,) + LITS:
        out.append(((p,) if p is not None else (), 'X'))   # [literal] |- X
    for p in LITS:
        for q in LITS:
            if p < q:
                out.append(((p, q), 'X'))           # literal, literal |- X
    for p in LITS:
        for q in LITS:
            if p < q:
                for c in LITS:
                    out.append((('X', p, q), c))    # X, literal, literal |- literal
    return out
CONTEXTS = _contexts()
ENUM_SIZE = len(SHAPES) * len(CONTEXTS)

def enumerated_case(k):
    "k-th shape-in-context argument."
    k %= ENUM_SIZE
    shape = SHAPES[k % len(SHAPES)]
    prems, conc = CONTEXTS[k // len(SHAPES)]
    prems = [shape if p == 'X' else p for p in prems]
    conc = shape if conc == 'X' else conc
    return prems, conc

_REPS = None
def representatives():
    """One logic per distinct set of truth-functional operator rule implementations (read from
    the rule classes themselves: modal, quantifier and access rules left out)."""
    global _REPS
    if _REPS is None:
        from pytableaux.logics import registry
        groups = {}
        for name in proofwl.LOGICS:
            key = []
            for r in registry(name).Rules.all():
                op = getattr(r, 'operator', None)
                if op is not None and op.name in ('Possibility', 'Necessity'): continue
                if getattr(r, 'quantifier', None) is not None: continue
                if r.__qualname__.startswith('access.') or any(c.__qualname__.startswith('access.') for c in r.__mro__): continue
                own = tuple(c.__module__ + '.' + c.__qualname__ for c in r.__mro__
                            if c.__module__.startswith('pytableaux') and any(not k.startswith('__') and k != '_abc_impl' for k in c.__dict__))
                key.append((r.name, own))
            groups.setdefault(tuple(sorted(key)), []).append(name)
        _REPS = sorted(min(v) for v in groups.values())
    return _REPS

def enum_plan(tier):
    "(logics, members) of the systematic sweep: quick = one logic per rule-implementation group, thorough = all."
    logics = representatives() if tier == 'quick' else proofwl.LOGICS
    return logics, len(logics) * ENUM_SIZE

def enum_cfg(ctx, srng, e):
    logics, n = enum_plan(ctx.tier)
    e %= n
    logic = logics[e % len(logics)]
    prems, conc = enumerated_case(e // len(logics))
    opts = dict(proofwl.ALL_OPT_COMBOS[srng.randrange(4)])
    opts['is_build_models'] = False
    return proofsim.Config(logic, prems, conc, opts, order_seed=srng.choice((0, srng.getrandbits(32))),
        cache=srng.choice(proofsim.CACHE_SIZES), drive='step')

def make_cfg(ctx):
    rng = ctx.rng('workload')
    logic = proofwl.pick_logic(rng, ctx.index, SALTS)
    prof = lexgen.Profile(rng, depth=rng.choice((1, 2, 2, 3, 3) if ctx.tier == 'quick' else (1, 2, 3, 3, 4)))
    if rng.random() < 0.3:
        exs = [e for e in proofwl.example_args() if all(
            refsem.is_propositional(s) and not any(x[0] == 'P' for x in refsem.walk(s)) for s in list(e[1]) + [e[2]])]
        _, prems, conc = rng.choice(exs)
        prems = list(prems)
        if rng.random() < 0.6:
            prems, conc = proofwl.mutate(rng, prems, conc, prof)
    else:
        prems, conc = lexgen.gen_argument(rng, prof)
    tries = 0
    while not small_enough(prems, conc) and tries < 20:
        tries += 1
        prof.depth = max(1, prof.depth - (tries % 2))
        prems, conc = lexgen.gen_argument(rng, prof)
    if not small_enough(prems, conc):
        prems, conc = [], ('A', 0, 0)
    if rng.random() < 0.1:
        # repetitive arguments: one sentence many times over (alone, or as a conjunct next to the
        # argument's own letters), so that equal node content piles up on a branch
        letters = sorted({x for s_ in list(prems) + [conc] for x in refsem.walk(s_) if x[0] == 'A'}) or [('A', 0, 0)]
        p = rng.choice(letters)
        if rng.random() < 0.3:
            p = ('O', 'Negation', (p,))
        extras = []
        for _ in range(rng.choice((5, 6, 7, 8, 9))):
            q = rng.choice(letters)
            r = rng.random()
            extras.append(p if r < 0.5 else ('O', 'Conjunction', (p, q) if r < 0.75 else (q, p)))
        prems = list(prems) + extras
        if rng.random() < 0.5:
            rng.shuffle(prems)
    srng = ctx.rng('schedule')
    opts = dict(proofwl.ALL_OPT_COMBOS[srng.randrange(4)])
    opts['is_build_models'] = srng.random() < 0.3
    return proofsim.Config(logic, prems, conc, opts,
        order_seed=srng.choice((0, 0, srng.getrandbits(32))),
        cache=srng.choice(proofsim.CACHE_SIZES), drive='step')

def judge(cfg):
    "Returns ((clause, key, message) or None, result, truth-table verdict)."
    sem = refsem.get(cfg.logic)
    res = proofsim.run(cfg, Budget())
    valid, cm = refsem.truth_table_valid(sem, cfg.prems, cfg.conc, max_cells=6)
    tab = res.tab
    out = res.outcome
    base = proofcheck.base_logic(cfg.logic)
    def V(clause, cause, msg):
        # a diagnosed rule names the root cause by itself; otherwise qualify by the base logic
        if cause.startswith(('rule=', 'closure=')):
            return (clause, '%s|%s' % (clause, cause), msg)
        return (clause, '%s|%s|%s' % (clause, base, cause), msg)
    if out.startswith('aborted:lost-tick'):
        return V('non-termination', out.split()[1], 'ticking rule re-applied to a node it had consumed (%s): the proof cannot finish' % out[8:]), res, valid
    if out.startswith('aborted'):
        return None, res, None   # step budget: inconclusive, counted by the caller
    if out.startswith('error'):
        return V('raises', type(res.error).__name__, 'build raised %s: %s' % (type(res.error).__name__, res.error)), res, valid
    if any(proofsim.is_flagged(b) for b in tab):
        return V('limit-flag', 'quit-flag', 'a quit-flag node appeared on a propositional argument'), res, valid
    if out == 'premature':
        return V('premature', 'premature', 'tableau finished prematurely without any limit set'), res, valid
    if valid is None:
        return None, res, None
    if valid and out != 'valid':
        cause = 'outcome=' + out
        if out == 'refuted':
            b = next(b for b in tab.open if not proofsim.is_flagged(b))
            cause = diagnose.incomplete(sem, tab, b)
        return V('incomplete', cause, 'argument is valid by truth tables but the tableau reports %s (%s)' % (out, cause)), res, valid
    if not valid and out != 'refuted':
        cause = 'outcome=' + out
        if out == 'valid':
            cause = diagnose.unsound(sem, tab, cm, frames=False)
        return V('unsound', cause, 'counter-valuation %s but the tableau reports %s (%s)' % (
            sorted((lexgen.polish(a), v) for (w, a), v in cm.atom.items()), out, cause)), res, valid
    return None, res, valid

def check_cfg(ctx, cfg, record=True):
    v, res, valid = judge(cfg)
    if record:
        ctx.log(cfg.logic, lexgen.argstr(cfg.prems, cfg.conc), res.outcome, len(res.steps), proofcheck.kernel_digest(res))
        ctx.count('steps', len(res.steps))
        ctx.count('outcome.' + res.outcome.split(':')[0])
        if res.outcome.startswith('aborted:step-budget'):
            ctx.count('inconclusive_step_budget')
        elif valid is None:
            ctx.count('skipped_too_many_cells')
        if len(res.steps) >= 2 and valid is not None:
            ctx.nontrivial((cfg.logic, lexgen.argstr(cfg.prems, cfg.conc)))
        ctx.distinct('arguments', lexgen.argstr(cfg.prems, cfg.conc))
        ctx.distinct('schedules', (cfg.logic, lexgen.argstr(cfg.prems, cfg.conc), proofcheck.kernel_digest(res)))
        for st in res.steps:
            ctx.distinct('rules_fired', (cfg.logic, st[0]))
        ctx.sample(dict(logic=cfg.logic, argument=lexgen.argstr(cfg.prems, cfg.conc), opts=cfg.opts,
            order_seed=cfg.order_seed, outcome=res.outcome, steps=len(res.steps), truth_table_valid=valid))
    if v is not None:
        clause, key, msg = v
        proofcheck.report(ctx, ID, clause, cfg, '%s %s: %s' % (cfg.logic, lexgen.argstr(cfg.prems, cfg.conc), msg), key)

def _key(cfg):
    v, _, _ = judge(cfg)
    return v[1] if v else None

def minimise(ctx, v):
    return proofcheck.minimise_violation(v, _key)

def scale_run(ctx, k):
    "k-th member of (representative logic x scale case): verdict known by construction, confirmed by R1's evaluator."
    logics = representatives()
    cases = proofwl.scale_cases()
    logic = logics[k % len(logics)]
    case = cases[(k // len(logics)) % len(cases)]
    sem = refsem.get(logic)
    prems, conc, val = proofwl.scale_case(sem, case)
    srng = ctx.rng('schedule')
    opts = dict(proofwl.ALL_OPT_COMBOS[srng.randrange(4)])
    opts['is_build_models'] = False
    cfg = proofsim.Config(logic, prems, conc, opts, order_seed=srng.choice((0, srng.getrandbits(32))),
        cache=srng.choice(proofsim.CACHE_SIZES), drive='step')
    m = refsem.RModel()
    if val is not None:
        for a, v in val.items():
            m.atom[(0, a)] = v
        expect = 'refuted' if sem.is_countermodel(m, prems, conc) else None
    else:
        # valid by construction if the deciding letter's designated values keep the fold designated
        b = ('A', 1, 0)
        ok = True
        for v in sem.values:
            m.atom = {(0, b): v}
            if sem.is_designated(v) and not all(sem.is_designated(sem.eval(x, m, 0)) for x in (conc,) if b in list(refsem.walk(x))):
                ok = False
        expect = 'valid' if ok and case[0] == 0 else None
    ctx.count('scale_cases')
    if expect is None:
        return
    res = proofsim.run(cfg, Budget(100))      # a linear proof takes < 70 steps; branching folds are cut short
    ctx.log('scale', logic, case, res.outcome)
    if res.outcome.startswith('aborted:step-budget'):
        ctx.count('inconclusive_step_budget')
        return
    if res.outcome != expect:
        clause = 'unsound' if expect == 'refuted' else 'incomplete'
        cause = 'outcome=' + res.outcome
        if clause == 'unsound' and res.outcome == 'valid':
            cause = diagnose.unsound(sem, res.tab, m, frames=False)
        key = '%s|%s' % (clause, cause) if cause.startswith(('rule=', 'closure=')) else '%s|%s|scale|%s' % (clause, proofcheck.base_logic(logic), cause)
        proofcheck.report(ctx, ID, clause, cfg, '%s %s: by construction the argument is %s (%d copies against %d items), the tableau reports %s' % (
            logic, lexgen.argstr(prems, conc)[:120], 'invalid' if expect == 'refuted' else 'valid', case[1], case[2], res.outcome), key)

def run(ctx):
    if ctx.index % 2 == 1:
        # systematic half: this run's slice of the whole shape-in-context enumeration (both tiers
        # sweep all of it; later passes repeat it under other seeded schedules)
        logics, n = enum_plan(ctx.tier)
        nodd = max(1, plan(ctx.tier)['runs'] // 2)
        per = -(-n // nodd)
        j = ctx.index // 2
        off = (ctx.seed * 7919) % n
        srng = ctx.rng('schedule')
        for e in range(j * per, (j + 1) * per):
            ctx.count('enumerated_members')
            check_cfg(ctx, enum_cfg(ctx, srng, off + e))
        # scale sweep: n-fold repetitions (n = 1..20) against n-1 / n / n+1 items of the other kind
        nsc = len(representatives()) * len(proofwl.scale_cases())
        per2 = -(-nsc // nodd)
        for k in range(j * per2, min(nsc, (j + 1) * per2)):
            scale_run(ctx, k)
        return
    check_cfg(ctx, make_cfg(ctx))

def replay(ctx, spec):
    check_cfg(ctx, proofsim.Config.from_json(spec['cfg']))
