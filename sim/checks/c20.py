"""C20 — the exported model description says what the model evaluates (modelsim + proofsim models)."""
from __future__ import annotations

import itertools

from pytableaux.lang import Predicated

from .. import lexgen, modelsim, proofsim, proofwl, proofcheck
from ..ref import refsem

ID = 'C20'
LEVEL = 'exploration'
SALTS = 8
RULE = ('each run = (i) one model built by a seeded model-API call history (modelsim: hidden ground truth, seeded insertion '
        'order, repeated facts, <=3 worlds, <=3 constants) and (ii) the models of the open branches of one generated proof '
        '(is_build_models, seeded schedule), in one of the 57 logics (stratified). For each finished model get_data() must list '
        'exactly the model\'s worlds and access pairs; per world every listed letter / opaque sentence carries value_of() there '
        'and every known one is listed; a tuple is in a predicate\'s extension iff its predication evaluates to T/B and listed '
        'in the anti-extension only if (and, for explicitly interpreted tuples, if) it evaluates to F/B; two calls are equal; '
        'sequences are sorted. distinct_nontrivial = distinct (logic, #worlds, #constants, #predicates, value profile) models')
ASSUMPTIONS = [
    'anti-extension exactness is demanded for explicitly interpreted tuples only (unassigned tuples of LP-family logics evaluate to F without being listed; the statement is read as being about the interpretation the model holds)',
]

def plan(tier):
    return dict(runs=6000 if tier == 'quick' else 80000, timeout=900 if tier == 'quick' else 7200)

def check_export(model):
    """None or (site, message)."""
    Meta = model.Meta
    try:
        d1 = model.get_data()
        d2 = model.get_data()
    except Exception as e:
        return ('raises', 'get_data() raised %s: %s' % (type(e).__name__, e))
    if repr(d1) != repr(d2):
        return ('nondeterministic', 'two get_data() calls differ')
    Rpairs = sorted((a, b) for a in model.R for b in model.R[a])
    if Meta.modal:
        worlds = sorted(set(model.frames) | {w for p in Rpairs for w in p})
        if list(d1['Worlds']['values']) != worlds:
            return ('worlds', 'exported worlds %s, model worlds %s' % (list(d1['Worlds']['values']), worlds))
        acc = [tuple(p) for p in d1['Access']['values']]
        if acc != Rpairs:
            return ('access', 'exported access %s, model relation %s' % (acc, Rpairs))
        frames = d1['Frames']['values']
        if len(frames) != len(worlds):
            return ('worlds', '%d frames exported for %d worlds' % (len(frames), len(worlds)))
        per = [(w, f['value']) for w, f in zip(worlds, frames)]
    else:
        per = [(0, d1)]
    consts = sorted(model.constants)
    known_atoms = set()
    known_opaques = set()
    for w in model.frames:
        known_atoms |= set(model.frames[w].atomics)
        known_opaques |= set(model.frames[w].opaques)
    for w, fd in per:
        kw = dict(world=w) if Meta.modal else {}
        for section, known in (('Atomics', known_atoms), ('Opaques', known_opaques)):
            vals = fd[section]['values']
            inputs = [v['input'] for v in vals]
            if inputs != sorted(inputs):
                return ('unsorted', '%s of world %s not sorted' % (section, w))
            if len(set(inputs)) != len(inputs):
                return ('duplicate', '%s of world %s lists a sentence twice' % (section, w))
            for v in vals:
                ev = model.value_of(v['input'], **kw)
                if str(v['output']) != str(ev):
                    return ('value', '%s: world %s lists %s = %s but value_of gives %s' % (section, w, v['input'], v['output'], ev))
            missing = known - set(inputs)
            if missing:
                return ('missing', '%s of world %s does not list %s' % (section, w, sorted(missing)[:3]))
        plist = fd['Predicates']['values']
        seen = {}
        order = []
        for pd in plist:
            sym = pd['symbol']
            for item in pd['values']:
                pred = item['input']
                tuples = [tuple(t) for t in item['output']]
                if tuples != sorted(tuples):
                    return ('unsorted', 'tuples of %s at world %s not sorted' % (pred, w))
                side = 'anti' if sym.endswith('-') else 'ext'
                seen[(pred, side)] = tuples
                if side == 'ext':
                    order.append(pred)
        if order != sorted(order):
            return ('unsorted', 'predicates of world %s not sorted' % w)
        frame = model.frames[w]
        for pred in frame.predicates:
            if (pred, 'ext') not in seen:
                return ('missing', 'predicate %s of world %s not exported' % (pred, w))
            if Meta.many_valued and (pred, 'anti') not in seen:
                return ('missing', 'anti-extension of %s at world %s not exported' % (pred, w))
        for (pred, side), tuples in seen.items():
            explicit = set(frame.predicates[pred]) if pred in frame.predicates else set()
            universe = set(itertools.product(consts, repeat=pred.arity)) | explicit | set(tuples)
            for t in universe:
                try:
                    ev = str(model.value_of(Predicated(pred, t), **kw))
                except Exception as e:
                    return ('raises', 'value_of(%s%s) raised %s' % (pred, t, type(e).__name__))
                listed = t in tuples
                if side == 'ext':
                    if listed != (ev in ('T', 'B')):
                        return ('extension', 'world %s: %s%s evaluates to %s but is %s the exported extension' % (w, pred, t, ev, 'in' if listed else 'not in'))
                else:
                    if listed and ev not in ('F', 'B'):
                        return ('anti-extension', 'world %s: %s%s evaluates to %s but is in the exported anti-extension' % (w, pred, t, ev))
                    if not listed and ev in ('F', 'B') and t in explicit:
                        return ('anti-extension', 'world %s: %s%s is interpreted as %s but missing from the exported anti-extension' % (w, pred, t, ev))
    return None

def profile(model):
    vals = set()
    for w in model.frames:
        fr = model.frames[w]
        vals |= {str(v) for v in fr.atomics.values()} | {str(v) for p in fr.predicates.values() for v in p.values()}
    return (model.Meta.name, len(model.frames), len(model.constants), max((len(model.frames[w].predicates) for w in model.frames), default=0), tuple(sorted(vals)))

def judge_model(ctx, model, origin, spec, record=True):
    r = check_export(model)
    if record:
        ctx.count('evaluations')
        ctx.count('models.' + origin)
        ctx.nontrivial(profile(model))
    if r is not None:
        site, msg = r
        sem = refsem.get(model.Meta.name)
        scope = model.Meta.name if site in ('worlds', 'access') else sem.base
        ctx.violation('%s/%s' % (ID, site), '%s|%s|%s' % (site, scope, origin), '%s (%s model): %s' % (model.Meta.name, origin, msg), spec)
        return True
    return False

def run(ctx):
    rng = ctx.rng('workload')
    logic = proofwl.pick_logic(rng, ctx.index, SALTS)
    sem = refsem.get(logic)
    gt = modelsim.ground_truth(rng, sem)
    calls = modelsim.history_from(ctx.rng('history'), gt, sem, conflicts=True)
    try:
        m = modelsim.apply_history(logic, calls)
    except Exception:
        m = None          # the model API raising is C08's business
    ctx.log(logic, len(calls))
    if m is not None:
        ctx.sample(dict(logic=logic, origin='history', calls=calls[:8]))
        if judge_model(ctx, m, 'history', dict(logic=logic, calls=calls)):
            return
    prems, conc = proofwl.gen_case(rng, logic)
    srng = ctx.rng('schedule')
    opts = proofwl.gen_opts(srng, models=True)
    opts['max_steps'] = 150
    cfg = proofsim.Config(logic, prems, conc, opts, order_seed=srng.choice((0, srng.getrandbits(32))), cache=srng.choice(proofsim.CACHE_SIZES))
    res = proofsim.run(cfg)
    ctx.log(lexgen.argstr(prems, conc), res.outcome)
    if res.outcome == 'refuted':
        for b in res.tab.open:
            if b.model is not None:
                if judge_model(ctx, b.model, 'branch', dict(cfg=cfg.to_json())):
                    return

def replay(ctx, spec):
    if 'calls' in spec:
        m = modelsim.apply_history(spec['logic'], spec['calls'])
        judge_model(ctx, m, 'history', spec, record=False)
    else:
        cfg = proofsim.Config.from_json(spec['cfg'])
        res = proofsim.run(cfg)
        if res.outcome == 'refuted':
            for b in res.tab.open:
                if b.model is not None and judge_model(ctx, b.model, 'branch', spec, record=False):
                    return

def minimise(ctx, v):
    from ..kernel import Violation, ddmin, Ctx
    if 'calls' not in v.spec:
        return None
    logic = v.spec['logic']
    def fails(calls):
        try:
            m = modelsim.apply_history(logic, calls)
        except Exception:
            return False
        cx = Ctx(ID, ctx.seed, ctx.tier, ctx.index, ctx.salt)
        judge_model(cx, m, 'history', {}, record=False)
        return bool(cx.violations) and cx.violations[0].key == v.key
    calls = ddmin(v.spec['calls'], fails, budget=100)
    cx = Ctx(ID, ctx.seed, ctx.tier, ctx.index, ctx.salt)
    judge_model(cx, modelsim.apply_history(logic, calls), 'history', dict(logic=logic, calls=calls), record=False)
    if not cx.violations:
        return None
    w = cx.violations[0]
    return Violation(w.clause, w.key, w.message, w.spec, None)
