"""C05 — branches close exactly when their literals are unsatisfiable (branchsim + proofsim monitor)."""
from __future__ import annotations

from .. import branchsim, diagnose, lexgen, proofsim, proofwl, proofcheck
from ..kernel import Violation
from ..ref import refsem

ID = 'C05'
LEVEL = 'exploration'
SALTS = 8
RULE = ('each run = (o) 7 members of the enumeration of all (base sentence x non-empty subset of the literal constraints at one world) of its logic, swept completely by one quick batch, arrival order / world / fork seeded; (ib) 6 interleaved histories (0-10 unrelated padding nodes, a fork after which BOTH sides keep receiving nodes, step() calls between arrivals while a second root branch has pending work), judged per branch; (i) 6 literal histories: in one logic (stratified over the 57) a rule-only tableau receives a seeded subset of '
        'the literal constraints over one letter / predication / opaque sentence (sentence or negation x designated/undesignated '
        'x world 0/1; plus self-identity / existence literals in the classical family) in a seeded arrival order, sometimes '
        'split across a fork, sometimes with an equal-content duplicate node, under a seeded hash order; closed <=> R1 finds '
        'no satisfying value, and the model read off an open set must satisfy it; (ii) one whole proof (generated argument) '
        'where at every closure event the closing target\'s nodes must be jointly unsatisfiable in R1 and at completion every '
        'open limit-free branch\'s literal constraints must be satisfiable per (sentence, world). distinct_nontrivial = distinct '
        '(logic base, sentence kind, literal set, split?) cases')
ASSUMPTIONS = ['R1 value tables (sim/ref/refsem.py); literals = sentence or its negation, with designation marker, at one world']

def plan(tier):
    return dict(runs=1600 if tier == 'quick' else 40000, timeout=900 if tier == "quick" else 10800)

def key_of(spec, clause):
    sem = refsem.get(spec['logic'])
    return '%s|%s|%s' % (clause, sem.base, spec['kind'])

def judge_interleaved(ctx, spec, record=True):
    v, info = branchsim.execute_interleaved(spec)
    ctx.log(spec['logic'], branchsim.show(spec['nodes']), spec['events'], info['closed'], None if v is None else v[0])
    if record:
        ctx.count('evaluations')
        ctx.count('interleaved_histories')
        ctx.count('fault.step_between_arrivals', info['stepped'])
        ctx.count('fault.fork_both_sides_extended', sum(1 for e in spec['events'] if e[0] == 'fork'))
        ctx.count('probe.padded_over_index_threshold', 1 if len(spec.get('pads', ())) > 6 else 0)
    if v is not None:
        clause, msg = v
        ctx.violation('%s/%s' % (ID, clause), key_of(spec, clause) + '|interleaved', '%s: %s' % (spec['logic'], msg), dict(literals=spec))

def judge_literals(ctx, spec, record=True):
    if spec.get('interleaved'):
        return judge_interleaved(ctx, spec, record)
    v, info = branchsim.execute_literals(spec)
    ctx.log(spec['logic'], branchsim.show(spec['nodes']), spec['split'], info['closed'], None if v is None else v[0])
    if record:
        ctx.count('evaluations')
        ctx.count('literal_sets.satisfiable' if info['sat'] else 'literal_sets.unsatisfiable')
        if spec['split'] is not None:
            ctx.count('fault.fork_between_arrivals')
        sem = refsem.get(spec['logic'])
        ctx.nontrivial((sem.base, sem.modal, spec['kind'], sorted(map(str, spec['nodes'])), spec['split'] is not None))
        ctx.sample(dict(logic=spec['logic'], nodes=branchsim.show(spec['nodes']), split=spec['split'], closed=info['closed'], satisfiable=info['sat']))
    if v is not None:
        clause, msg = v
        ctx.violation('%s/%s' % (ID, clause), key_of(spec, clause), '%s: %s' % (spec['logic'], msg), dict(literals=spec))

class ClosureMonitor:
    "(ii) whole proofs: closures only on unsatisfiable targets; open branches have satisfiable literals."
    def __init__(self, sem):
        self.sem = sem
        self.bad = None
        self.closures = 0
    def on_created(self, tab, res): pass
    def on_trunk(self, tab, res): pass
    def on_step(self, tab, res, entry):
        if self.bad or not getattr(entry.rule, 'closure', False):
            return
        self.closures += 1
        t = entry.target
        nodes = list(t.get('nodes') or ([t['node']] if t.get('node') is not None else []))
        items = []
        for n in nodes:
            if 'sentence' in n:
                items.append([lexgen.to_json(lexgen.to_ast(n['sentence'])), n.get('designated'), n.get('world')])
        if not items:
            return
        if not closing_unsat(self.sem, items):
            self.bad = ('closed-satisfiable', 'rule %s closed a branch on %s, which R1 can satisfy' % (entry.rule.name, branchsim.show(items)), entry.rule)
    def on_finish(self, tab, res):
        if self.bad or res.outcome not in ('refuted',):
            return
        for b in tab.open:
            if proofsim.is_flagged(b):
                continue
            val, badkey = diagnose.literal_valuation(self.sem, b)
            if val is None:
                self.bad = ('open-unsatisfiable', 'completed open branch carries unsatisfiable literals on %s at world %s' % (
                    lexgen.polish(badkey[1]), badkey[0]), None)
                return

def closing_unsat(sem, items):
    """Are the closing target's nodes jointly unsatisfiable? Literal targets are decided by the
    value tables; compound sentences are treated as opaque cells (a sentence and its negation,
    or one sentence with both markers)."""
    neg = sem.ops['Negation']
    groups = {}
    for sj, d, w in items:
        s = lexgen.from_json(sj)
        n = False
        if sem.classical and s[0] == 'O' and s[1] == 'Negation':
            x = s[2][0]
            if x[0] == 'P' and (x[1] == refsem.EXISTENCE or (x[1] == refsem.IDENTITY and x[2][0] == x[2][1])):
                return True
        k = 0
        while s[0] == 'O' and s[1] == 'Negation' and not sem.is_opaque(s):
            s, k = s[2][0], k + 1
        groups.setdefault((s, w), []).append((k, d))
    def negk(v, k):
        for _ in range(k):
            v = neg(v)
        return v
    for key, cons in groups.items():
        if not any(all((negk(v, k) == 'T') if d is None else (sem.is_designated(negk(v, k)) == bool(d)) for k, d in cons)
                   for v in sem.values):
            return True
    return False

def judge_proof(ctx, cfg, record=True):
    sem = refsem.get(cfg.logic)
    mon = ClosureMonitor(sem)
    res = proofsim.run(cfg, mon)
    arg = lexgen.argstr(cfg.prems, cfg.conc)
    ctx.log(cfg.logic, arg, res.outcome, len(res.steps), mon.closures)
    if record:
        ctx.count('evaluations')
        ctx.count('probe.closure_events_checked', mon.closures)
        ctx.count('outcome.' + res.outcome.split(':')[0])
    if mon.bad:
        clause, msg, rule = mon.bad
        key = '%s|%s' % (clause, 'closure=' + diagnose.rule_id(rule) if rule is not None else proofcheck.base_logic(cfg.logic))
        proofcheck.report(ctx, ID, clause, cfg, '%s %s: %s' % (cfg.logic, arg, msg), key)

def run(ctx):
    rng = ctx.rng('workload')
    logic = proofwl.pick_logic(rng, ctx.index, SALTS)
    sem = refsem.get(logic)
    # systematic part: this logic's enumeration of (base sentence x subset of the literal
    # constraints at one world), 7 members per run, swept completely by one quick batch
    wl = len(proofwl.weighted_logics())
    nth = (ctx.index // (SALTS * wl)) * SALTS + ctx.index % SALTS      # n-th run on this slot of the logic cycle
    total = branchsim.literal_case_count(sem)
    off = (ctx.seed * 7919) % total
    for k in range(7):
        ctx.count('enumerated_literal_sets')
        judge_literals(ctx, branchsim.enum_literal_case(rng, sem, off + nth * 7 + k))
        if ctx.violations:
            return
    for k in range(6):
        judge_literals(ctx, branchsim.gen_literal_case(rng, sem))
        if ctx.violations:
            return
    for k in range(6):
        judge_interleaved(ctx, branchsim.gen_interleaved_case(rng, sem))
        if ctx.violations:
            return
    prems, conc = proofwl.gen_case(rng, logic)
    srng = ctx.rng('schedule')
    opts = proofwl.gen_opts(srng, models=False)
    opts['max_steps'] = 200
    judge_proof(ctx, proofsim.Config(logic, prems, conc, opts, order_seed=srng.choice((0, srng.getrandbits(32))),
        cache=srng.choice(proofsim.CACHE_SIZES), drive='step'))

def replay(ctx, spec):
    if 'literals' in spec:
        judge_literals(ctx, spec['literals'], record=False)
    else:
        judge_proof(ctx, proofsim.Config.from_json(spec['cfg']), record=False)

def minimise(ctx, v):
    if 'literals' not in v.spec:
        return None
    from ..kernel import ddmin
    if v.spec['literals'].get('interleaved'):
        # shrink the event list (events refer to nodes by index, so the node list stays)
        spec = dict(v.spec['literals'])
        def fails_ev(events):
            sp = dict(spec, events=events)
            try:
                r, _ = branchsim.execute_interleaved(sp)
            except Exception:
                return False
            return r is not None and key_of(sp, r[0]) + '|interleaved' == v.key
        if not fails_ev(spec['events']):
            return None
        spec['events'] = ddmin(spec['events'], fails_ev, budget=60)
        for pads in ([], spec.get('pads', [])[:7]):
            if fails_ev(spec['events']) and branchsim.execute_interleaved(dict(spec, pads=pads))[0] is not None:
                spec['pads'] = pads
                break
        r, _ = branchsim.execute_interleaved(spec)
        if r is None:
            return None
        return Violation(v.clause, v.key, '%s: %s' % (spec['logic'], r[1]), dict(literals=spec), None)
    spec = dict(v.spec['literals'])
    def fails(nodes):
        sp = dict(spec, nodes=nodes, split=None)
        r, _ = branchsim.execute_literals(sp)
        return r is not None and key_of(sp, r[0]) == v.key
    if fails(spec['nodes']):
        spec['split'] = None
        spec['nodes'] = ddmin(spec['nodes'], fails, budget=40)
    r, _ = branchsim.execute_literals(spec)
    if r is None:
        return None
    return Violation(v.clause, v.key, '%s: %s' % (spec['logic'], r[1]), dict(literals=spec), None)
