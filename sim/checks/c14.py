"""C14 — lexical items have value semantics, with an invisible bounded cache (lexsim)."""
from __future__ import annotations

from .. import lexsim
from ..kernel import Violation, ddmin

ID = 'C14'
LEVEL = 'exploration'
SALTS = 4
NEEDS_LOGICS = False
RULE = ('each run = one seeded history of 30-160 operations over items of all nine lexical types and Argument (system '
        'predicates and sentences containing them over-represented): construct from parts, construct again, rebuild from spec through the concrete class and from '
        'ident through Sentence/Parameter and LexicalAbc, copy / deepcopy / pickle, ==, !=, <, <=, >, >=, hash '
        'on pairs and triples (incl. cross-type), sorted, attribute set/delete attempts, derived constructions (negate, negative, '
        'substitute, constant >> quantified, next) and evict faults (filler constructions, placed at random and between taking an '
        'ident/spec and rebuilding from it), executed under a per-run cache size from {1,2,3,5,8,64,1000} and again under the '
        'fault-free twin (size 1000); both observation logs must be identical and every operation must agree with the structural '
        'model R3. distinct_nontrivial = distinct (operation kind, lexical type(s), cache size class) situations')
ASSUMPTIONS = [
    'cache size 0 is an unsupported configuration (the package cannot be imported with ITEM_CACHE_SIZE=0) and is not judged',
    'type ranks Predicate<Constant<Variable<Quantifier<Operator<Atomic<Predicated<Quantified<Operated are the documented LexType ranks',
]
COMPONENTS = dict(real='pytableaux.lang (lex.py incl. the construction cache, collect.Argument)', stub='none')
CACHES = (1, 2, 3, 5, 8, 64, 1000)

def plan(tier):
    return dict(runs=8000 if tier == 'quick' else 160000, timeout=900 if tier == 'quick' else 7200)

def make_spec(ctx):
    rng = ctx.rng('workload')
    n = rng.choice((30, 30, 60, 100, 160))
    return dict(cache=CACHES[ctx.index % len(CACHES)], ops=lexsim.gen_ops(rng, n))

def verdict(spec):
    "Returns None or (clause, key, message, step)."
    log, fail = lexsim.execute(spec)
    if fail is not None:
        f, step = fail
        return ('%s' % f.clause, '%s|%s' % (f.clause, f.site), f.msg, step)
    log2, fail2 = lexsim.execute(spec, cache=1000)
    if fail2 is not None:
        f, step = fail2
        return ('%s' % f.clause, '%s|%s' % (f.clause, f.site), f.msg + ' (with the large cache)', step)
    if log != log2:
        k = next(i for i, (a, b) in enumerate(zip(log, log2)) if a != b) if len(log) == len(log2) else min(len(log), len(log2))
        return ('cache-visible', 'cache-visible|%s' % (log[k][0] if k < len(log) else 'length'),
                'observation %d differs between cache size %d and 1000: %r vs %r' % (k, spec['cache'], log[k] if k < len(log) else None, log2[k] if k < len(log2) else None), len(spec['ops']) - 1)
    return None, log

def judge(ctx, spec, record=True):
    r = verdict(spec)
    if r[0] is None:
        log = r[1]
        ctx.log(spec['cache'], len(spec['ops']), 'ok', len(log))
        if record:
            ctx.count('evaluations', len(spec['ops']))
            cls = 'tiny' if spec['cache'] <= 3 else 'small' if spec['cache'] <= 64 else 'large'
            for e in log:
                ctx.nontrivial((e[0], e[1] if len(e) > 1 and isinstance(e[1], str) else None, cls))
            ctx.count('fault.evict', sum(1 for o in spec['ops'] if o[0] == 'evict' or (o[0] == 'rebuild' and o[3])))
            ctx.count('fault.evict_between_ident_and_rebuild', sum(1 for o in spec['ops'] if o[0] == 'rebuild' and o[3]))
            ctx.sample(dict(cache=spec['cache'], ops=spec['ops'][:6], observations=len(log)))
        return
    clause, key, msg, step = r
    ctx.log(spec['cache'], len(spec['ops']), key)
    ctx.violation('%s/%s' % (ID, clause), key, msg, dict(cache=spec['cache'], ops=spec['ops'][:step + 1]))

def run(ctx):
    judge(ctx, make_spec(ctx))

def replay(ctx, spec):
    judge(ctx, spec, record=False)

def minimise(ctx, v):
    spec = dict(v.spec)
    def fails(ops):
        try:
            r = verdict(dict(spec, ops=ops))
        except Exception:
            return False
        return r[0] is not None and r[1] == v.key
    ops = ddmin(spec['ops'], fails, budget=120)
    r = verdict(dict(spec, ops=ops))
    if r[0] is None:
        return None
    return Violation(v.clause, v.key, r[2], dict(cache=spec['cache'], ops=ops), None)
