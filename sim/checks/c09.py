"""C09 — the verdict does not depend on how the proof is searched (proofsim families, cross-salt)."""
from __future__ import annotations

from .. import lexgen, proofsim, proofwl, proofcheck
from ..kernel import Ctx
from ..ref import refsem
from .. import seeds

ID = 'C09'
LEVEL = 'exploration'
SALTS = 8
GUARD_STEPS = 250
RULE = ('each family = one generated argument in one logic (stratified over the 57), proved under 2 (quick) / all 8 (thorough) lexical-hash salts (one '
        'fresh interpreter each) x per salt 4 (quick) / 10 (thorough) configurations drawn from {group optimisation on/off} x '
        '{rank optimisation on/off} x {build(), step() loop, stepiter()} x seeded tie-break orders x premise permutations and '
        'duplications; one schedule per run is executed in all three drive modes and must give identical histories. A family may '
        'not contain both a valid and a refuted (limit-free open branch) outcome, and no member may raise. '
        'distinct_nontrivial = distinct (logic, argument) families in which >=2 different realised step histories were observed')
ASSUMPTIONS = [
    'outcomes produced only by step/world/constant limits are not verdicts (excluded exactly as the property says)',
    'a family conflict is attributed to a root cause with the reference semantics R1 (see sim/proofcheck.py explain_conflict)',
]

def salts(tier):
    # the lexical salt only permutes sets of constants / sentences: 2 salts in quick buy 4x the families
    return 2 if tier == 'quick' else 8

def plan(tier):
    return dict(runs=1920 if tier == 'quick' else 24000, timeout=900 if tier == "quick" else 10800)

def family_case(ctx_seed, fam):
    rng = seeds.rng(ctx_seed, ID, 'family', fam)
    wl = proofwl.weighted_logics()
    logic = wl[fam % len(wl)]
    prems, conc = proofwl.gen_case(rng, logic)
    sem = refsem.get(logic)
    if sem.modal and sem.classical and rng.random() < 0.10:
        # identity statements and predications spread over several worlds
        prems, conc = proofwl.identity_modal_template(rng)
    elif sem.modal and sem.quantified and rng.random() < 0.12:
        # one universal sentence at several sibling worlds, not all of which mention a constant
        prems, conc = proofwl.boxed_universal_template(rng)
    elif sem.modal and rng.random() < 0.16:
        # premise order and multiplicity matter most where several modal premises feed one world
        prems, conc = proofwl.modal_interplay_template(rng)
    return logic, prems, conc

def permute(rng, prems, k=None, dup=None):
    """k-th premise arrangement of a run: original, reversed, rotated, then shuffles with a
    duplicated premise (every run covers the first ones, so order effects do not depend on luck)."""
    prems = list(prems)
    if not prems or k == 0:
        return prems
    if k == 1:
        return prems[::-1]
    if k == 2:
        return prems[1:] + prems[:1]
    # duplicated premises: one of them (which one rotates with the salt), or every one
    if dup is not None and rng.random() < 0.6:
        prems.insert(rng.randrange(len(prems) + 1), prems[dup % len(prems)])
    else:
        prems = prems + prems
    if rng.random() < 0.7:
        rng.shuffle(prems)
    return prems

def make_cfgs(ctx, logic, prems, conc):
    srng = ctx.rng('schedule')
    n = 4 if ctx.tier == 'quick' else 10
    cfgs = []
    for k in range(n):
        opts = dict(proofwl.ALL_OPT_COMBOS[(k + srng.randrange(4)) % 4])
        opts['is_build_models'] = srng.random() < 0.6
        opts['max_steps'] = GUARD_STEPS
        cfgs.append(proofsim.Config(logic, permute(srng, prems, (k + ctx.salt) % 4, dup=ctx.salt + ctx.index // salts(ctx.tier)), conc, opts,
            order_seed=srng.choice((0, srng.getrandbits(32), srng.getrandbits(32))),
            cache=srng.choice(proofsim.CACHE_SIZES), drive=('build', 'step', 'stepiter')[k % 3]))
    return cfgs

def judge_run(ctx, cfgs, record=True):
    """Run the given configs (one salt). Returns list of (cfg, res)."""
    out = []
    for c in cfgs:
        out.append((c, proofsim.run(c)))
    logic = cfgs[0].logic
    arg = lexgen.argstr(cfgs[0].prems, cfgs[0].conc)
    ctx.log(logic, arg, [(r.outcome, len(r.steps)) for c, r in out])
    # no member may raise
    for c, r in out:
        if r.outcome.startswith('error'):
            site = proofcheck.raise_site(r.error)
            proofcheck.report(ctx, ID, 'raises', c, '%s %s opts=%s drive=%s: build raised %s: %s' % (
                logic, lexgen.argstr(c.prems, c.conc), c.opts, c.drive, type(r.error).__name__, r.error), 'raises|' + site)
            return out
    # the same schedule in all three drive modes gives one history
    c0, r0 = out[0]
    if not r0.outcome.startswith('error'):
        for drive in ('build', 'step', 'stepiter'):
            if drive == c0.drive:
                continue
            r = proofsim.run(c0.replace(drive=drive))
            if r.steps != r0.steps or r.outcome != r0.outcome:
                proofcheck.report(ctx, ID, 'drive-mode', c0.replace(drive=drive),
                    '%s %s: %s gives %s/%d steps, %s gives %s/%d steps under the same schedule' % (
                        logic, arg, c0.drive, r0.outcome, len(r0.steps), drive, r.outcome, len(r.steps)), 'drive-mode|%s-vs-%s' % (c0.drive, drive))
                return out
    vs = [(c, r) for c, r in out if r.outcome == 'valid']
    rs = [(c, r) for c, r in out if r.outcome == 'refuted']
    if vs and rs:
        key, why = proofcheck.explain_conflict(ctx.rng('r1'), vs[0], rs[0])
        spec = dict(multi=[dict(salt=ctx.salt, cfg=vs[0][0].to_json()), dict(salt=ctx.salt, cfg=rs[0][0].to_json())], clause='verdict-depends-on-search')
        ctx.violation(ID + '/verdict-depends-on-search', 'verdict-depends-on-search|' + key,
            '%s %s: valid under %s but refuted under %s; %s' % (logic, arg, brief(vs[0][0]), brief(rs[0][0]), why), spec)
    return out

def brief(c):
    return 'opts=%s order=%s drive=%s salt-local premises=%s' % ({k: v for k, v in c.opts.items() if k.startswith('is_') and k != 'is_build_models'}, c.order_seed, c.drive, [lexgen.polish(p) for p in c.prems])

def run(ctx):
    fam = ctx.index // salts(ctx.tier)
    logic, prems, conc = family_case(ctx.seed, fam)
    cfgs = make_cfgs(ctx, logic, prems, conc)
    out = judge_run(ctx, cfgs)
    arg = lexgen.argstr(prems, conc)
    digs = sorted({proofcheck.kernel_digest(r) for c, r in out})
    classes = sorted({proofcheck.verdict_class(r.outcome) for c, r in out})
    for c, r in out:
        ctx.count('outcome.' + r.outcome.split(':')[0])
    ctx.count('evaluations', len(out) + 2)
    ctx.distinct('histories', (logic, arg, tuple(digs)))
    rec = dict(i=ctx.index, fam=fam, salt=ctx.salt, logic=logic, arg=arg, classes=classes, ndig=len(digs), digs=digs[:6])
    for cls in ('valid', 'refuted'):
        for c, r in out:
            if r.outcome == cls:
                rec[cls] = c.to_json()
                break
    ctx.record(rec)
    ctx.sample(dict(logic=logic, argument=arg, salt=ctx.salt, outcomes=[r.outcome for c, r in out], distinct_histories=len(digs)))

def post(records, emit, acc):
    "Driver side: merge each family over the salts."
    from ..kernel import key8
    fams = {}
    for r in records:
        fams.setdefault(r['fam'], []).append(r)
    for fam, rs in sorted(fams.items()):
        digs = set()
        for r in rs:
            digs.update(r['digs'])
        if len(digs) >= 2:
            acc.distinct.add(key8((rs[0]['logic'], rs[0]['arg'])))
        acc.counters['families'] += 1
        vs = [r for r in rs if 'valid' in r]
        fs = [r for r in rs if 'refuted' in r]
        if vs and fs and not any('valid' in r and 'refuted' in r for r in rs):
            # cross-salt conflict (within-salt conflicts were reported by the worker)
            v, f = vs[0], fs[0]
            spec = dict(multi=[dict(salt=v['salt'], cfg=v['valid']), dict(salt=f['salt'], cfg=f['refuted'])], clause='verdict-depends-on-search')
            emit('C09/verdict-depends-on-search', 'verdict-depends-on-search|cross-salt|%s' % rs[0]['logic'],
                 '%s %s: valid under lexical salt %s, refuted under salt %s' % (rs[0]['logic'], rs[0]['arg'], v['salt'], f['salt']), spec, v['i'], v['salt'])

def replay(ctx, spec):
    if 'multi' in spec:
        cfgs = [proofsim.Config.from_json(m['cfg']) for m in spec['multi'] if m.get('salt', ctx.salt) == ctx.salt]
        out = judge_run(ctx, cfgs, record=False)
        rec = dict(i=ctx.index, fam=0, salt=ctx.salt, logic=cfgs[0].logic, arg=lexgen.argstr(cfgs[0].prems, cfgs[0].conc), digs=[], classes=[])
        for cls in ('valid', 'refuted'):
            for c, r in out:
                if r.outcome == cls:
                    rec[cls] = c.to_json()
                    break
        ctx.record(rec)
    else:
        judge_run(ctx, [proofsim.Config.from_json(spec['cfg'])], record=False)
