"""C17 — limits and lifecycle: three-valued verdicts, bounded work, locked state.

Fault enumeration over step-limit cut points (every m in 1..n+1 in thorough), seeded deadline
faults on a virtual clock, and lifecycle call histories judged by the R6 state machine."""
from __future__ import annotations

from pytableaux import _verif
from pytableaux.errors import IllegalStateError, ProofTimeoutError
from pytableaux.lang import LexicalAbcMeta
from pytableaux.logics import registry
from pytableaux.proof import Tableau, sdwnode

from .. import lexgen, proofsim, proofwl, proofcheck
from ..kernel import digest_of

ID = 'C17'
LEVEL = 'fault_enumeration'
SALTS = 8
NMAX = 60
RULE = ('each run = one sampled (logic, argument, options, tie-break order) whose fault-free twin gives natural length n<=60 '
        'and verdict v; then (a) step-limit faults: every m in 1..n+1 (thorough) or a seeded subset of <=6 cut points (quick) '
        'plus None, 0 and -1; (b) deadline faults: 3 time-limited runs on a virtual clock with a jump past the limit at a seeded '
        'clock-read index (first step / after a fork / last step / model generation / after completion) and one stalled-clock run; '
        '(c) one lifecycle history of <=12 API calls (step/build/finish/stepiter/setters/rule-set mutations/build_trunk/branch/hand-made branch with a node, so a tableau can start without a trunk) '
        'judged by the R6 state machine. distinct_nontrivial = distinct (logic, argument, fault kind, fault position) cases in '
        'which the fault actually cut the run short or the call sequence reached a started tableau')
ASSUMPTIONS = [
    'clock never runs backwards (not stated by the property, not injected)',
    'a deadline is judged on the public Tableau.timers.build under a frozen monitor view of the virtual clock',
]
COMPONENTS = dict(real='all pytableaux code from /repo (Tableau, rules, helpers, models, StopWatch)', stub='pytableaux.tools.timing._time (virtual clock), node/branch hash provider (seeded)')

def plan(tier):
    return dict(runs=1200 if tier == 'quick' else 16000, timeout=900 if tier == 'quick' else 14400)

# ---------------------------------------------------------------------------

def state_digest(tab):
    "Everything observable that 'changes nothing' refers to."
    return digest_of(dict(
        nb=len(tab), lens=[len(b) for b in tab], closed=[b.closed for b in tab], open=len(tab.open),
        hist=len(tab.history), finished=tab.finished, completed=tab.completed, premature=tab.premature,
        valid=tab.valid, invalid=tab.invalid, flag=int(tab.flag.value),
        rules=[r.name for r in tab.rules], groups=[len(g) for g in tab.rules.groups],
        arg=None if tab.argument is None else lexgen.argstr(*lexgen.arg_to_ast(tab.argument)),
        logic=None if tab.logic is None else tab.logic.Meta.name,
        tree=tab.tree is not None, stats=sorted(k for k in tab.stats)))

class V(Exception):
    def __init__(self, clause, detail, msg):
        self.clause, self.detail, self.msg = clause, detail, msg

def fresh(cfg):
    _verif.reset(cfg.order_seed, cfg.overrides)
    LexicalAbcMeta.__call__._cache.__init__(maxlen=cfg.cache)

# -- (a) step limits

def step_limit_case(cfg, twin, m):
    n = len(twin.steps)
    opts = dict(cfg.opts)
    opts['max_steps'] = m
    res = proofsim.run(cfg.replace(opts=opts, drive='step'))
    tab = res.tab
    if res.outcome.startswith('error'):
        raise V('step-limit', 'raises', 'max_steps=%r: build raised %s: %s' % (m, type(res.error).__name__, res.error))
    positive = isinstance(m, int) and m > 0
    if positive and len(tab.history) > m:
        raise V('step-limit', 'exceeded', 'max_steps=%d but %d steps were recorded' % (m, len(tab.history)))
    if not positive or m >= n + 1:
        if res.steps != twin.steps or res.outcome != twin.outcome:
            raise V('step-limit', 'changes-unlimited', 'max_steps=%r changes the proof: %s/%d steps vs %s/%d unlimited' % (
                m, res.outcome, len(res.steps), twin.outcome, n))
        return False
    # the limit bites (m <= n): stopped short
    if not tab.finished:
        raise V('step-limit', 'not-finished', 'max_steps=%d: tableau not finished after stepping to exhaustion' % m)
    if len(tab.history) < n or m == n:
        if not tab.premature or tab.completed:
            raise V('step-limit', 'not-premature', 'max_steps=%d (natural length %d): finished but not premature' % (m, n))
        if tab.valid is not None or tab.invalid is not None:
            raise V('step-limit', 'verdict', 'max_steps=%d: premature tableau reports valid=%r invalid=%r' % (m, tab.valid, tab.invalid))
        if tab.tree is None:
            raise V('step-limit', 'no-tree', 'max_steps=%d: premature (step-limited) tableau has no tree' % m)
        if tab.stats.get('result') not in ('Unfinished',):
            raise V('step-limit', 'verdict', "max_steps=%d: stats result is %r" % (m, tab.stats.get('result')))
    return True

# -- (b) deadlines

def deadline_case(cfg, twin, limit, base, plan, slack=None):
    """Step loop under a virtual clock with build_timeout=limit (and, with slack, a step limit
    larger than the natural length, which must change nothing). Returns dict of probes."""
    n = len(twin.steps)
    opts = dict(cfg.opts)
    opts['build_timeout'] = limit
    if slack is not None:
        opts['max_steps'] = n + slack
    fresh(cfg)
    clock = proofsim.VClock(base, plan)
    arg = lexgen.build_argument(cfg.prems, cfg.conc)
    info = dict(raised=False, fired=0, where=None)
    with proofsim.clock_installed(clock):
        tab = Tableau(cfg.logic, arg, **opts)
        def elapsed():
            with proofsim.frozen(clock):
                return tab.timers.build.elapsed_ms()
        # independent view: simulated time spent since the first step() call (the clock only
        # advances on reads made by the system, and those only happen inside our calls), and
        # the moments at which the model of an open branch starts being generated
        t0 = [0, 0]      # [time accumulated in completed step() calls, read index at entry of the current call]
        model_starts = []
        Model = tab.logic.Model
        orig_read = Model.read_branch
        def read_branch(self_, branch, *a, **kw):
            # a stopwatch's view: time between the first clock read of each step() call and now
            first = t0[1]
            cur = (clock.ms - clock.log[first]) if first < len(clock.log) else 0
            model_starts.append(t0[0] + cur)
            return orig_read(self_, branch, *a, **kw)
        Model.read_branch = read_branch
        try:
            return _deadline_loop(cfg, twin, limit, tab, clock, elapsed, t0, model_starts, info, n)
        finally:
            Model.read_branch = orig_read

def _deadline_loop(cfg, twin, limit, tab, clock, elapsed, t0, model_starts, info, n):
    if True:
        calls = 0
        t0[1] = len(clock.log)      # reads made while constructing the tableau are not build time
        while True:
            calls += 1
            if t0[1] < len(clock.log):
                t0[0] += clock.log[-1] - clock.log[t0[1]]
            t0[1] = len(clock.log)
            if calls > n + 5:
                raise V('timeout', 'no-progress', 'step loop did not end within n+5 calls under a time limit')
            pre = elapsed()
            fired_before = len(clock.fired)
            hist_before = len(tab.history)
            was_finished = tab.finished
            try:
                entry = tab.step()
            except ProofTimeoutError:
                post = elapsed()
                info['raised'] = True
                if not post > limit:
                    raise V('timeout', 'early', 'ProofTimeoutError raised with %sms elapsed on the build timer, limit %sms' % (post, limit))
                if was_finished:
                    raise V('timeout', 'after-finish', 'step() on a finished tableau raised ProofTimeoutError')
                break
            except Exception as e:
                raise V('timeout', 'raises', 'step() raised %s: %s' % (type(e).__name__, e))
            if pre > limit and not was_finished:
                raise V('timeout', 'late', 'step() called with %sms already elapsed (limit %sms) did not raise; it recorded %d step(s)' % (
                    pre, limit, len(tab.history) - hist_before))
            if not entry:
                break
        info['fired'] = len(clock.fired)
        with proofsim.frozen(clock):
            info['final'] = (info['raised'], len(tab.history), tab.finished, tab.tree is None, tab.valid, tab.invalid)
        late = [w for w in model_starts if w > limit]
        if late:
            raise V('timeout', 'models-after-deadline', 'the model of an open branch was started %sms into the build, past the time limit %sms, without ProofTimeoutError (model starts at %s ms)' % (
                late[0], limit, model_starts))
        with proofsim.frozen(clock):
            if info['raised']:
                if not tab.finished:
                    raise V('timeout', 'not-finished', 'after ProofTimeoutError the tableau is not finished')
                if tab.tree is not None:
                    raise V('timeout', 'tree-built', 'timed-out tableau has a tree')
                if len(tab.history) < n:
                    info['where'] = 'steps'
                    if not tab.premature or tab.valid is not None or tab.invalid is not None:
                        raise V('timeout', 'verdict', 'timed out after %d of %d steps but premature=%r valid=%r invalid=%r' % (
                            len(tab.history), n, tab.premature, tab.valid, tab.invalid))
                elif not (cfg.opts.get('is_build_models') and twin.outcome in ('refuted', 'open-flagged')):
                    # every step was recorded and there are no models to generate: the deadline
                    # surfaced at the final, empty step() call -- still a tableau stopped by its limit
                    info['where'] = 'final-step'
                    if not tab.premature or tab.valid is not None or tab.invalid is not None:
                        raise V('timeout', 'verdict', 'timed out at the final step() call (no model generation) but premature=%r valid=%r invalid=%r' % (
                            tab.premature, tab.valid, tab.invalid))
                else:
                    info['where'] = 'models'
                    tv = dict(valid=True, refuted=False).get(twin.outcome)
                    if tab.valid is not None and tv is not None and tab.valid != tv:
                        raise V('timeout', 'verdict', 'deadline in model generation: verdict valid=%r but the unlimited twin is %s' % (tab.valid, twin.outcome))
                # stepping / finishing again changes nothing
                d0 = state_digest(tab)
                r1 = tab.step()
                r2 = tab.finish()
                if r1 is not None or r2 is not tab or state_digest(tab) != d0:
                    raise V('lifecycle', 'finished-not-inert', 'step()/finish() on a timed-out tableau changed it')
            else:
                # no timeout surfaced: must be identical to the twin
                steps = proofsim.history_records(tab)
                out = proofsim.classify(tab)
                if steps != twin.steps or out != twin.outcome:
                    raise V('timeout', 'changes-untimed', 'time limit %s never exceeded, yet proof differs from twin: %s/%d vs %s/%d' % (
                        limit, out, len(steps), twin.outcome, n))
    info['reads'] = clock.reads
    info['ms'] = clock.elapsed
    info['steps'] = len(tab.history)
    return info

def deadline_other_drives(cfg, limit, base, plan, ref, max_steps=None):
    """The same clock plan under stepiter() and build(): the clock is read at the same points, so
    all drive modes must agree with the step() loop on whether the deadline surfaced, on the
    steps recorded and on the final state."""
    for drive in ('stepiter', 'build'):
        opts = dict(cfg.opts)
        opts['build_timeout'] = limit
        if max_steps is not None:
            opts['max_steps'] = max_steps
        fresh(cfg)
        clock = proofsim.VClock(base, plan)
        arg = lexgen.build_argument(cfg.prems, cfg.conc)
        raised = False
        with proofsim.clock_installed(clock):
            tab = Tableau(cfg.logic, arg, **opts)
            try:
                if drive == 'build':
                    tab.build()
                else:
                    for _ in tab.stepiter():
                        pass
            except ProofTimeoutError:
                raised = True
            except Exception as e:
                raise V('timeout', 'raises', '%s() raised %s: %s' % (drive, type(e).__name__, e))
            with proofsim.frozen(clock):
                got = (raised, len(tab.history), tab.finished, tab.tree is None, tab.valid, tab.invalid)
        if got != ref:
            raise V('timeout', 'drive-mode', 'time limit %sms: step() loop ended (raised, steps, finished, no tree, valid, invalid)=%s but %s() gives %s' % (
                limit, ref, drive, got))

# -- (c) lifecycle histories (R6)

LIFE_OPS = ('step', 'step', 'step', 'build', 'finish', 'stepiter2', 'set_arg', 'set_logic', 'rules_append', 'rules_extend',
            'rules_clear', 'groups_create', 'groups_append', 'groups_clear', 'group_append', 'group_extend', 'group_clear',
            'build_trunk', 'branch', 'next', 'branch_node', 'branch_node')

def lifecycle_case(cfg, ops, with_arg, with_logic, auto_trunk=True):
    fresh(cfg)
    arg = lexgen.build_argument(cfg.prems, cfg.conc)
    opts = dict(cfg.opts)
    opts.pop('build_timeout', None)
    if not auto_trunk:
        opts['auto_build_trunk'] = False
    if 'branch_node' in ops and not (opts.get('max_steps') or 0) > 0:
        # without an argument nothing projects a world limit (S4: a hand-made `[]<>a` never ends): keep the work bounded
        opts['max_steps'] = 40
    tab = Tableau(cfg.logic if with_logic else None, arg if with_arg else None, **opts)
    from pytableaux.proof.rules import NoopRule
    # setters after start are tried with values that differ from the current ones
    other_arg = lexgen.build_argument(cfg.prems + [cfg.conc], ('O', 'Negation', (cfg.conc,)))
    other_logic = 'CPL' if cfg.logic != 'CPL' else 'FDE'
    reached_started = False
    for k, op in enumerate(ops):
        started = Tableau.Flag.STARTED in tab.flag
        finished = tab.finished
        d0 = state_digest(tab)
        reached_started |= started
        exc = None
        ret = None
        try:
            if op == 'step': ret = tab.step()
            elif op == 'build': ret = tab.build()
            elif op == 'finish': ret = tab.finish()
            elif op == 'stepiter2':
                ret = []
                for i, e in enumerate(tab.stepiter()):
                    ret.append(e)
                    if i >= 1: break
            elif op == 'set_arg': tab.argument = arg if tab.argument is None else other_arg
            elif op == 'set_logic': tab.logic = cfg.logic if tab.logic is None else other_logic
            elif op == 'rules_append': tab.rules.append(NoopRule)
            elif op == 'rules_extend': tab.rules.extend([NoopRule])
            elif op == 'rules_clear': tab.rules.clear()
            elif op == 'groups_create': tab.rules.groups.create()
            elif op == 'groups_append': tab.rules.groups.append([NoopRule])
            elif op == 'groups_clear': tab.rules.groups.clear()
            elif op in ('group_append', 'group_extend', 'group_clear'):
                if not len(tab.rules.groups):
                    continue
                g = tab.rules.groups[k % len(tab.rules.groups)]
                if op == 'group_append': g.append(NoopRule)
                elif op == 'group_extend': g.extend([NoopRule])
                else: g.clear()
            elif op == 'build_trunk': tab.build_trunk()
            elif op == 'branch': tab.branch()
            elif op == 'branch_node':
                # a hand-made branch with a node on it: the tableau can start without ever building a trunk
                if tab.logic is None or finished:
                    continue
                meta = tab.logic.Meta
                node = sdwnode(lexgen.build(cfg.prems[k % len(cfg.prems)] if cfg.prems else cfg.conc),
                    True if meta.many_valued else None, 0 if meta.modal else None)
                tab.branch().append(node)
            elif op == 'next': tab.next()
        except ProofTimeoutError as e:
            exc = e
        except Exception as e:
            exc = e
        d1 = state_digest(tab)
        where = 'op %d %s (started=%s finished=%s)' % (k, op, started, finished)
        mutators = ('set_arg', 'set_logic', 'rules_append', 'rules_extend', 'rules_clear', 'groups_create', 'groups_append',
                    'groups_clear', 'group_append', 'group_extend', 'group_clear', 'build_trunk')
        if started and op in mutators:
            if not isinstance(exc, IllegalStateError):
                raise V('lifecycle', 'unlocked:' + op, '%s on a started tableau %s' % (where, 'raised %s' % type(exc).__name__ if exc else 'was accepted'))
            if d1 != d0:
                raise V('lifecycle', 'unlocked:' + op, '%s raised but changed the tableau' % where)
        if finished and op in ('step', 'finish', 'build', 'stepiter2'):
            if exc is not None:
                raise V('lifecycle', 'finished-not-inert', '%s on a finished tableau raised %s' % (where, type(exc).__name__))
            if d1 != d0:
                raise V('lifecycle', 'finished-not-inert', '%s on a finished tableau changed it' % where)
            if op == 'step' and ret is not None:
                raise V('lifecycle', 'finished-not-inert', 'step() on a finished tableau returned an entry')
            if op in ('finish', 'build') and ret is not tab:
                raise V('lifecycle', 'finished-not-inert', '%s() on a finished tableau did not return self' % op)
            if op == 'stepiter2' and ret:
                raise V('lifecycle', 'finished-not-inert', 'stepiter() on a finished tableau yielded entries')
        # (exceptions from step/build on odd but un-started or manually branched tableaux are not
        #  C17's business: the statement only constrains finished and started tableaux)
        if finished and not tab.finished:
            raise V('lifecycle', 'unfinished', '%s: a finished tableau became unfinished' % where)
        if tab.argument is None and (tab.valid is not None or tab.invalid is not None):
            raise V('lifecycle', 'verdict-without-argument', '%s: tableau without argument reports valid=%r invalid=%r' % (where, tab.valid, tab.invalid))
        if tab.finished and tab.premature == tab.completed:
            raise V('lifecycle', 'flags', '%s: finished tableau premature=%r completed=%r' % (where, tab.premature, tab.completed))
        if tab.finished and tab.premature and (tab.valid is not None or tab.invalid is not None):
            raise V('lifecycle', 'verdict', '%s: premature tableau reports a verdict' % where)
    return reached_started or Tableau.Flag.STARTED in tab.flag

# ---------------------------------------------------------------------------

def make_case(ctx):
    rng = ctx.rng('workload')
    logic = proofwl.pick_logic(rng, ctx.index, SALTS)
    prems, conc = proofwl.gen_case(rng, logic)
    srng = ctx.rng('schedule')
    opts = proofwl.gen_opts(srng, models=srng.random() < 0.7)
    cfg = proofsim.Config(logic, prems, conc, opts,
        order_seed=srng.choice((0, srng.getrandbits(32))), cache=srng.choice(proofsim.CACHE_SIZES), drive='step')
    return cfg

def fault_plan(ctx, cfg, twin):
    "All faults of this run, as a JSON-able list (the replay file carries it)."
    frng = ctx.rng('faults')
    n = len(twin.steps)
    faults = []
    if ctx.tier == 'thorough':
        ms = list(range(1, n + 2))
    else:
        cand = sorted({1, 2, max(1, n // 2), max(1, n - 1), max(1, n), n + 1} | {frng.randrange(1, n + 2) for _ in range(2)})
        ms = cand[:8]
    for m in ms + [None, 0, -1, n + 7]:
        faults.append(['step_limit', m])
    # deadlines: how many clock reads does the twin make? place jumps inside that range
    reads = twin.clock.reads
    fork_reads = []
    limit = frng.choice((5, 50, 1000))
    for where in ('first', 'mid', 'last', 'tail', 'after'):
        if where == 'first': k = frng.randrange(0, max(1, min(reads, 12)))
        elif where == 'mid': k = frng.randrange(0, max(1, reads))
        elif where == 'last': k = max(0, reads - frng.randrange(1, 12))
        elif where == 'tail': k = max(0, reads - frng.randrange(1, 4))
        else: k = reads + frng.randrange(0, 5)
        faults.append(['deadline', limit, 0, {str(k): limit + frng.randrange(1, 50)}])
        if ctx.tier == 'quick' and frng.random() < 0.4:
            break
    faults.append(['deadline', limit, 0, {}])                 # stalled clock
    faults.append(['deadline', 10 ** 9, 1, {}])               # ticking clock, generous limit
    faults.append(['deadline', frng.choice((3, 10, 30)), 1, {}])   # ticking clock, tight limit
    # both limits at once: a step limit that cannot bite next to the time limit
    for f in faults:
        if f[0] == 'deadline':
            f.append(frng.choice((None, None, 1, 3, 50)))
    ops = [frng.choice(LIFE_OPS) for _ in range(frng.randrange(3, 13))]
    faults.append(['lifecycle', ops, frng.random() < 0.8, frng.random() < 0.85, frng.random() < 0.8])
    return faults

def apply_fault(cfg, twin, f):
    if f[0] == 'step_limit':
        bit = step_limit_case(cfg, twin, f[1])
        return ('step_limit', bit, f[1])
    if f[0] == 'deadline':
        plan = {int(k): v for k, v in f[3].items()}
        slack = f[4] if len(f) > 4 else None
        info = deadline_case(cfg, twin, f[1], f[2], plan, slack)
        deadline_other_drives(cfg, f[1], f[2], plan, info['final'], None if slack is None else len(twin.steps) + slack)
        kind = 'stall' if (not f[3] and f[2] == 0) else 'timeout'
        return (kind, info['raised'], info)
    if f[0] == 'lifecycle':
        started = lifecycle_case(cfg, f[1], f[2], f[3], f[4] if len(f) > 4 else True)
        return ('lifecycle', started, None)
    raise ValueError(f)

def judge(ctx, cfg, faults=None, record=True):
    # the twin carries only a safety net; a twin that needs it is 'too long' and skipped
    guard = dict(cfg.opts); guard['max_steps'] = NMAX + 2
    twin = proofsim.run(cfg.replace(opts=guard))
    arg = lexgen.argstr(cfg.prems, cfg.conc)
    n = len(twin.steps)
    if twin.outcome == 'premature':
        n = NMAX + 1
    if twin.outcome.startswith('error') or n > NMAX or twin.outcome in ('premature', 'timeout'):
        if record:
            ctx.count('skipped_twin_' + twin.outcome.split(':')[0] if n <= NMAX else 'skipped_too_long')
        # lifecycle histories do not need a well-behaved twin
        if faults is None:
            faults = [f for f in fault_plan(ctx, cfg, twin) if f[0] == 'lifecycle'] if n <= NMAX else []
        else:
            faults = [f for f in faults if f[0] == 'lifecycle']
    elif faults is None:
        faults = fault_plan(ctx, cfg, twin)
    ctx.log(cfg.logic, arg, twin.outcome, n)
    for f in faults:
        try:
            kind, bit, info = apply_fault(cfg, twin, f)
        except V as v:
            key = '%s|%s' % (v.clause, v.detail)
            spec = dict(cfg=cfg.to_json(), faults=[f], clause=v.clause)
            ctx.violation('%s/%s' % (ID, v.clause), key, '%s %s fault=%s: %s' % (cfg.logic, arg, f[:3], v.msg), spec)
            return
        ctx.log(f[0], str(f[1])[:40], bit)
        if record:
            ctx.count('evaluations')
            if kind == 'step_limit':
                if bit:
                    ctx.count('fault.step_limit')
                    ctx.nontrivial((cfg.logic, arg, 'step', f[1]))
            elif kind in ('timeout', 'stall'):
                ctx.count('simulated_ms', info['ms'])
                if kind == 'stall':
                    ctx.count('fault.stall')
                if bit:
                    ctx.count('fault.timeout')
                    ctx.count('probe.timeout_landed_in_' + str(info['where']))
                    ctx.nontrivial((cfg.logic, arg, 'deadline', sorted(f[3].items()), f[1], f[2]))
                if info['fired']:
                    ctx.count('fault.clock_jump', info['fired'])
            elif kind == 'lifecycle':
                ctx.count('fault.api_misuse', len(f[1]))
                if bit:
                    ctx.nontrivial((cfg.logic, arg, 'life', f[1]))
    if record:
        ctx.sample(dict(logic=cfg.logic, argument=arg, opts=cfg.opts, natural_length=n, twin=twin.outcome,
                        faults=[f[:3] for f in faults][:8]))

def run(ctx):
    judge(ctx, make_case(ctx))

def replay(ctx, spec):
    judge(ctx, proofsim.Config.from_json(spec['cfg']), spec['faults'])

def minimise(ctx, v):
    from ..kernel import Violation, Ctx
    cfg = proofsim.Config.from_json(v.spec['cfg'])
    faults = v.spec['faults']
    def key_of(c, fs):
        cx = Ctx(ID, ctx.seed, ctx.tier, ctx.index, ctx.salt)
        try:
            judge(cx, c, fs, record=False)
        except Exception:
            return None
        return cx.violations[0].key if cx.violations else None
    # shrink a lifecycle op list first
    f = faults[0]
    if f[0] == 'lifecycle':
        from ..kernel import ddmin
        ops = ddmin(f[1], lambda ops: key_of(cfg, [['lifecycle', ops] + f[2:]]) == v.key)
        faults = [['lifecycle', ops] + f[2:]]
    small = proofcheck.minimise_cfg(cfg, lambda c: key_of(c, faults) == v.key, budget=60)
    cx = Ctx(ID, ctx.seed, ctx.tier, ctx.index, ctx.salt)
    judge(cx, small, faults, record=False)
    if not cx.violations:
        return None
    w = cx.violations[0]
    return Violation(w.clause, w.key, w.message, w.spec, None)
