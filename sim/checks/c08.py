"""C08 — model evaluation is compositional and frame-correct (modelsim histories vs R1)."""
from __future__ import annotations

from pytableaux.errors import DenotationError

from .. import lexgen, modelsim, proofwl, proofcheck
from ..kernel import Violation, ddmin
from ..ref import refsem

ID = 'C08'
LEVEL = 'exploration'
SALTS = 8
RULE = ('each run = one hidden ground-truth structure (<=3 worlds, <=3 constants, non-injective denotation in the classical '
        'family, <=3 letters, 1-2 predicates, opaque sentences) in one of the 57 logics (stratified); a seeded subset of its '
        'facts is fed through set_atomic/predicated/opaque/literal_value, set_value and R.add in a seeded order with repeated '
        'facts, then finish(); the reference semantics R1 builds the same model from the SET of facts. Compared: the access '
        'relation (exact closure; serial superset for D), identity/existence completion, and value_of vs R1 on ~50 sentences '
        '(depth<=3, all operators, both quantifiers, both modal operators, opaques) at every world. distinct_nontrivial = '
        'distinct (logic, innermost clause kind, child-value tuple) situations evaluated')
ASSUMPTIONS = [
    'R1 (sim/ref/refsem.py) transcribes the documented semantics (Appendix A of DESIGN.md); its tables equal the library\'s except the FDE family',
    'inputs come from one consistent ground truth, so ModelValueError paths are not exercised',
]
COMPONENTS = dict(real='pytableaux.models (BaseModel, frames, access classes) and every logic\'s Model class', stub='none')

def plan(tier):
    return dict(runs=10000 if tier == 'quick' else 300000, timeout=900 if tier == 'quick' else 5400)

def make_spec(ctx):
    rng = ctx.rng('workload')
    logic = proofwl.pick_logic(rng, ctx.index, SALTS)
    sem = refsem.get(logic)
    gt = modelsim.ground_truth(rng, sem)
    calls = modelsim.history_from(ctx.rng('history'), gt, sem)
    sents = modelsim.vocabulary_sentences(ctx.rng('sentences'), sem, gt, 50 if ctx.tier == 'quick' else 120, depth=3)
    return dict(logic=logic, calls=calls, sentences=[lexgen.to_json(s) for s in sents])

def family_key(sem, loc):
    kind, name, vals, a, b = loc
    if sem.base == 'FDE' and kind == 'clause' and 'N' in vals and 'B' in vals and name not in ('Assertion', 'Negation'):
        # conjunction / disjunction (and every operator, quantifier or modal operator defined
        # through them) of one N and one B operand: the evaluator's linear order F<N<B<T
        return 'eval|FDE|join-meet-of-N-and-B'
    scope = sem.name if name in refsem.MODAL else sem.base
    return 'eval|%s|%s|%s' % (scope, name, ','.join(vals))

def execute(spec, stats=None):
    """Returns None or (clause, key, message)."""
    logic = spec['logic']
    sem = refsem.get(logic)
    try:
        lib = modelsim.apply_history(logic, spec['calls'])
    except Exception as e:
        return ('raises', 'raises|%s|%s' % (sem.base, type(e).__name__), 'model API raised %s: %s' % (type(e).__name__, e))
    libR = {(a, b) for a in lib.R for b in lib.R[a]}
    rm, R0 = modelsim.reference_model(sem, spec['calls'], libR)
    kw = (lambda w: {'world': w}) if sem.modal else (lambda w: {})
    # frames
    if sem.modal:
        if sem.frame == 'D':
            if not R0 <= libR:
                return ('frame', 'frame|D|lost-pair', 'finish() lost access pairs %s' % sorted(R0 - libR))
            ws = {w for p in libR for w in p} | set(lib.frames)
            for w in ws:
                if not any((w, v) in libR for v in ws):
                    return ('frame', 'frame|D|not-serial', 'world %s has no successor after finish()' % w)
            orig = set(rm.worlds)
            if any(a in orig and b in orig and (a, b) not in R0 for (a, b) in libR):
                # allowed only when a needed a successor
                for (a, b) in libR - R0:
                    if a in orig and b in orig and any((a, x) in R0 for x in orig):
                        return ('frame', 'frame|D|extra-pair', 'finish() added %s although w%s already had a successor' % ((a, b), a))
        elif libR != rm.R:
            return ('frame', 'frame|%s|closure' % sem.frame, 'access relation after finish() is %s, the %s closure of the input is %s' % (
                sorted(libR), sem.frame, sorted(rm.R)))
        if sem.frame != 'D' and sorted(lib.frames) != sorted(set(rm.worlds)):
            return ('frame', 'frame|%s|worlds' % sem.frame, 'worlds after finish() are %s, expected %s' % (sorted(lib.frames), sorted(rm.worlds)))
    libconsts = sorted(('c', c.index, c.subscript) for c in lib.constants)
    if libconsts != rm.consts:
        return ('constants', 'constants|%s' % sem.base, 'model constants %s, facts mention %s' % (libconsts, rm.consts))
    # classical identity / existence / extension closure: every ground predication, every world
    if sem.classical and rm.consts:
        import itertools
        preds = sorted({pk for (w, pk, ps) in rm.pred} | {refsem.IDENTITY, refsem.EXISTENCE})
        for w in rm.worlds:
            for pk in preds:
                for tup in itertools.product(rm.consts, repeat=pk[2]):
                    s = ('P', pk, tup)
                    a = str(lib.value_of(lexgen.build(s), **kw(w)))
                    b = sem.eval(s, rm, w)
                    if stats is not None: stats['evals'] += 1
                    if a != b:
                        what = 'identity' if pk == refsem.IDENTITY else 'existence' if pk == refsem.EXISTENCE else 'extension'
                        return ('completion', 'completion|classical|%s' % what,
                                '%s at w%s is %s, the completed reference model says %s' % (lexgen.polish(s), w, a, b))
    for sj in spec['sentences']:
        s = lexgen.from_json(sj)
        ls = lexgen.build(s)
        for w in rm.worlds:
            a = b = None
            try:
                a = str(lib.value_of(ls, **kw(w)))
            except DenotationError:
                a = 'DenotationError'
            except Exception as e:
                return ('raises', 'raises|%s|value_of|%s' % (sem.base, type(e).__name__), 'value_of(%s, w%s) raised %s: %s' % (lexgen.polish(s), w, type(e).__name__, e))
            try:
                b = sem.eval(s, rm, w)
            except KeyError:
                b = 'DenotationError'
            if stats is not None: stats['evals'] += 1
            if a != b:
                if 'DenotationError' in (a, b):
                    return ('denotation', 'denotation|%s' % sem.base, 'value_of(%s, w%s): library %s, reference %s' % (lexgen.polish(s), w, a, b))
                loc = modelsim.localise(sem, lib, rm, s, w)
                if loc is None:
                    return ('harness', 'harness|localise', 'disagreement on %s could not be localised' % lexgen.polish(s))
                return ('evaluation', family_key(sem, loc),
                        'value_of(%s, w%s) is %s, documented semantics gives %s; innermost: %s of %s -> library %s, reference %s' % (
                            lexgen.polish(s), w, a, b, loc[1], list(loc[2]), loc[3], loc[4]))
            elif stats is not None and s[0] in 'OQ' and not sem.is_opaque(s):
                stats['clauses'].add((sem.name if s[0] == 'O' and s[1] in refsem.MODAL else sem.base, s[1]))
    return None

def judge(ctx, spec, record=True):
    stats = dict(evals=0, clauses=set())
    r = execute(spec, stats)
    ctx.log(spec['logic'], len(spec['calls']), None if r is None else r[1])
    if record:
        ctx.count('evaluations', stats['evals'])
        ctx.count('fault.repeated_fact', len(spec['calls']) - len({repr(c) for c in spec['calls']}))
        for c in stats['clauses']:
            ctx.nontrivial(c)
        ctx.distinct('histories', (spec['logic'], repr(spec['calls'])))
        ctx.sample(dict(logic=spec['logic'], calls=spec['calls'][:10], n_sentences=len(spec['sentences']),
                        example_sentence=lexgen.polish(lexgen.from_json(spec['sentences'][0])) if spec['sentences'] else None))
    if r is not None:
        clause, key, msg = r
        ctx.violation('%s/%s' % (ID, clause), key, '%s: %s' % (spec['logic'], msg), spec)

def run(ctx):
    judge(ctx, make_spec(ctx))

def replay(ctx, spec):
    judge(ctx, spec)

def minimise(ctx, v):
    spec = dict(v.spec)
    def fails(calls=None, sents=None):
        sp = dict(spec)
        if calls is not None: sp['calls'] = calls
        if sents is not None: sp['sentences'] = sents
        try:
            r = execute(sp)
        except Exception:
            return False
        return r is not None and r[1] == v.key
    sents = ddmin(spec['sentences'], lambda ss: fails(sents=ss), budget=60) if spec['sentences'] else []
    if not fails(sents=sents):
        sents = spec['sentences']
    spec['sentences'] = sents
    calls = ddmin(spec['calls'], lambda cs: fails(calls=cs), budget=150)
    if fails(calls=calls):
        spec['calls'] = calls
    r = execute(spec)
    return Violation(v.clause, v.key, '%s: %s' % (spec['logic'], r[2]), spec, None)
