"""C13 — parsers accept only closed well-formed sentences and fail only with ParseError (parsesim)."""
from __future__ import annotations
from collections import Counter

from .. import parsesim
from ..kernel import Violation, ddmin

ID = 'C13'
LEVEL = 'exploration'
SALTS = 2
NEEDS_LOGICS = False
RULE = ('each run = one long-lived parser (Polish or standard notation; auto_preds on/off; drop_parens on/off; predicate store '
        'empty, pre-declared or frozen) receiving a history of 5-40 inputs: writer renderings of generated sentences (all '
        'operators, quantifiers, system and user predicates, subscripts), the same with an input fault at a seeded position '
        '(truncate, flip, insert, foreign/unicode character, delete, duplicate span, stray parenthesis, swapped variable, '
        'padding, inner whitespace, digit runs), very deep nesting (40-600 levels) and very long subscripts optionally inside a '
        'quantifier scope followed by short inputs reusing its variable, random strings over the alphabet plus foreign characters, and strings of length <=2; every 16th run '
        'enumerates a slice of all strings of length <=3 over the alphabet. Per parse: Sentence or ParseError only, a '
        'deterministic trace-event budget for termination, structural closedness / non-vacuity / arity of the result, equality '
        'with a fresh twin parser carrying the declarations as they were before the call, and stable re-parse. '
        'distinct_nontrivial = distinct input strings that reached the parser')
ASSUMPTIONS = [
    'the predicate store is part of the input: a failed parse that auto-declared a predicate is not flagged, only a difference from the twin is',
    'non-termination = more than 1500000 trace events (calls anywhere, lines inside parsing.py/collect.py) per input (ordinary inputs <=200 characters; deep-nesting inputs up to ~5000)',
]
COMPONENTS = dict(real='pytableaux.lang.parsing (both parsers), lang.collect.Predicates, lang.writing (to render workloads)', stub='none')

def plan(tier):
    return dict(runs=8000 if tier == 'quick' else 360000, timeout=900 if tier == 'quick' else 5400)

def make_spec(ctx):
    rng = ctx.rng('workload')
    cfg = parsesim.gen_config(rng)
    if ctx.index % 16 == 15:
        # exhaustive short strings, sliced over the runs
        alpha = parsesim.ALPHA[cfg['notation']] + '#'
        n = len(alpha)
        total = n + n * n + n ** 3
        k = (ctx.index // 16)
        inputs = []
        for j in range(60):
            x = (k * 60 + j) % total
            if x < n: inputs.append(alpha[x])
            elif x < n + n * n:
                x -= n; inputs.append(alpha[x // n] + alpha[x % n])
            else:
                x -= n + n * n; inputs.append(alpha[x // (n * n)] + alpha[(x // n) % n] + alpha[x % n])
        return dict(cfg=cfg, inputs=inputs)
    return dict(cfg=cfg, inputs=parsesim.gen_inputs(rng, cfg, rng.choice((5, 10, 20, 40))))

def judge(ctx, spec, record=True):
    stats = Counter()
    r = parsesim.execute(spec, stats)
    ctx.log(spec['cfg']['notation'], len(spec['inputs']), None if r is None else r[1])
    if record:
        ctx.count('evaluations', stats['parses'])
        ctx.count('accepted', stats['accepted'])
        ctx.count('rejected', stats['rejected'])
        for t in spec['inputs']:
            ctx.nontrivial((spec['cfg']['notation'], t))
        ctx.count('fault.input_mutation_or_random', stats['rejected'])
        ctx.sample(dict(cfg=spec['cfg'], inputs=spec['inputs'][:8]))
    if r is not None:
        clause, site, msg, i = r
        ctx.violation('%s/%s' % (ID, clause), '%s|%s' % (clause, site), msg, dict(cfg=spec['cfg'], inputs=spec['inputs'][:i + 1]))

def run(ctx):
    judge(ctx, make_spec(ctx))

def replay(ctx, spec):
    judge(ctx, spec, record=False)

def minimise(ctx, v):
    spec = v.spec
    def key(inputs):
        try:
            r = parsesim.execute(dict(cfg=spec['cfg'], inputs=inputs))
        except Exception:
            return None
        return None if r is None else '%s|%s' % (r[0], r[1])
    inputs = ddmin(spec['inputs'], lambda xs: key(xs) == v.key, budget=80)
    # shrink the last input character-wise
    last = inputs[-1]
    changed = True
    n = 0
    while changed and n < 60:
        changed = False
        for i in range(len(last)):
            n += 1
            cand = last[:i] + last[i + 1:]
            if key(inputs[:-1] + [cand]) == v.key:
                last = cand; changed = True
                break
    inputs = inputs[:-1] + [last]
    r = parsesim.execute(dict(cfg=spec['cfg'], inputs=inputs))
    if r is None:
        return None
    return Violation(v.clause, v.key, r[2], dict(cfg=spec['cfg'], inputs=inputs), None)
