"""C16 — a tableau's bookkeeping is consistent at every step (proofsim step monitor, shadow R7)."""
from __future__ import annotations

from pytableaux.proof import Tableau

from .. import lexgen, proofsim, proofwl, proofcheck
from ..ref import refsem

ID = 'C16'
LEVEL = 'exploration'
SALTS = 8
MAX_STEPS_GUARD = 150
RULE = ('each run = one generated argument (propositional, modal, first-order; 30% mutated library examples) in one of '
        'the 57 logics (stratified) under seeded options, tie-break order, cache size and (40% of runs) a step-limit fault; '
        'the tableau is created empty, listeners for all 8 tableau events are attached, then logic and argument are set; '
        'after the trunk and after EVERY step() the shadow tableau rebuilt from events and return values is compared with '
        'the public state (branches, open view, history, stat()); after finish the tree and stats are recomputed. '
        'distinct_nontrivial = distinct (logic, argument, realised history digest) with >=1 fork or closure')
ASSUMPTIONS = [
    'the shadow is driven only by the 8 public tableau events and the values returned by step()',
    'a safety net of 150 steps bounds every run (stopping there is a normal step-limit finish, also checked)',
]

def num(x):
    return x.value if hasattr(x, 'value') and not isinstance(x, (int, float)) else int(x)

def plan(tier):
    return dict(runs=2400 if tier == 'quick' else 80000, timeout=900 if tier == 'quick' else 7200)

class Fail(proofsim.MonitorVerdict):
    def __init__(self, clause, msg):
        self.clause, self.msg = clause, msg

class Shadow:
    """R7: rebuilt from events; compared with the tableau after trunk and every step."""

    def __init__(self, cfg):
        self.cfg = cfg
        self.sem = refsem.get(cfg.logic)
        self.events = []          # (name, args) in arrival order
        self.branches = []        # shadow: list of dict(obj, nodes[list], closed, ticked[set of id])
        self.byid = {}
        self.snap = {}            # id(branch) -> (tuple(node ids), closed) at last check
        self.recorded = {}        # (id(branch), id(node)) -> (step added, step ticked) as first recorded
        self.hist_len = 0
        self.trunk_events = [0, 0]
        self.finish_events = 0
        self.apply_events = 0
        self.error = None
        self.checked_steps = 0
        self.forks = 0
        self.closures = 0

    # -- event listeners (record only; never touch the tableau)
    def attach(self, tab):
        E = Tableau.Events
        tab.on({
            E.AFTER_BRANCH_ADD: self.ev_branch_add,
            E.AFTER_BRANCH_CLOSE: self.ev_branch_close,
            E.AFTER_NODE_ADD: self.ev_node_add,
            E.AFTER_NODE_TICK: self.ev_node_tick,
            E.BEFORE_TRUNK_BUILD: lambda t: self._inc(0),
            E.AFTER_TRUNK_BUILD: lambda t: self._inc(1),
            E.AFTER_RULE_APPLY: self.ev_apply,
            E.AFTER_FINISH: self.ev_finish})

    def _inc(self, i):
        self.trunk_events[i] += 1

    def ev_branch_add(self, branch):
        if id(branch) in self.byid:
            self.error = ('event-twice', 'AFTER_BRANCH_ADD announced twice for one branch')
            return
        parent = branch.parent
        if parent is not None and id(parent) in self.byid:
            p = self.byid[id(parent)]
            # the copy may already carry nodes added before the branch was registered
            nodes = list(branch)
            # ticks made on the parent before the fork are inherited silently by the copy
            sb = dict(obj=branch, nodes=nodes, closed=False, ticked=set(p['ticked']), parent=p, forked_from=list(p['nodes']))
            self.forks += 1
        else:
            sb = dict(obj=branch, nodes=list(branch) if parent is None else list(branch), closed=False, ticked=set(), parent=None, forked_from=None)
            sb['pending'] = len(sb['nodes'])   # parentless: nodes already there are announced after the add event
        self.byid[id(branch)] = sb
        self.branches.append(sb)

    def ev_node_add(self, node, branch):
        sb = self.byid.get(id(branch))
        if sb is None:
            self.error = ('event-order', 'AFTER_NODE_ADD for a branch never announced')
            return
        if sb.get('pending'):
            # pre-existing nodes of a parentless branch are announced once each, in order
            k = len(sb['nodes']) - sb['pending']
            if sb['nodes'][k] is not node:
                self.error = ('event-order', 'pre-existing node announced out of order')
            sb['pending'] -= 1
            return
        if sb['closed']:
            self.error = ('closed-extended', 'node added to a closed branch')
        if any(n is node for n in sb['nodes']):
            self.error = ('event-twice', 'AFTER_NODE_ADD announced twice for one node on one branch')
            return
        sb['nodes'].append(node)

    def ev_node_tick(self, node, branch):
        sb = self.byid.get(id(branch))
        if sb is None:
            self.error = ('event-order', 'AFTER_NODE_TICK for a branch never announced')
            return
        if id(node) in sb['ticked']:
            self.error = ('event-twice', 'AFTER_NODE_TICK announced twice')
        sb['ticked'].add(id(node))

    def ev_branch_close(self, branch):
        sb = self.byid.get(id(branch))
        if sb is None or sb['closed']:
            self.error = ('event-twice', 'AFTER_BRANCH_CLOSE announced twice or for an unknown branch')
            return
        sb['closed'] = True
        self.closures += 1

    def ev_apply(self, target):
        self.apply_events += 1

    def ev_finish(self, tab):
        self.finish_events += 1

    # -- monitor protocol
    def on_created(self, tab, res):
        self.attach(tab)

    def on_trunk(self, tab, res):
        cfg = self.cfg
        if self.trunk_events != [1, 1]:
            raise Fail('events', 'trunk events announced %s times (before, after)' % self.trunk_events)
        if len(tab) != 1:
            raise Fail('trunk', 'trunk has %d branches' % len(tab))
        b = tab[0]
        nodes = list(b)
        arg = tab.argument
        want_w = 0 if self.sem.modal else None
        if len(nodes) != len(arg.premises) + 1:
            raise Fail('trunk', 'trunk has %d nodes for %d premises + conclusion' % (len(nodes), len(arg.premises)))
        style = nodes[-1].get('designated') is not None
        for i, (n, p) in enumerate(zip(nodes, arg.premises)):
            if n.get('sentence') != p or (style and n.get('designated') is not True) or n.get('world') != want_w:
                raise Fail('trunk', 'trunk node %d is %s, expected premise %s (designated, world %s)' % (i, proofsim.render_node(n), p, want_w))
        n = nodes[-1]
        if style:
            okc = n.get('sentence') == arg.conclusion and n.get('designated') is False
        else:
            okc = n.get('sentence') == ~arg.conclusion
        if not okc or n.get('world') != want_w:
            raise Fail('trunk', 'last trunk node is %s for conclusion %s' % (proofsim.render_node(n), arg.conclusion))
        self.compare(tab, None, trunk=True)

    def on_step(self, tab, res, entry):
        self.compare(tab, entry)

    def compare(self, tab, entry, trunk=False):
        if self.error:
            raise Fail(*self.error)
        self.checked_steps += 1
        cur = tab.current_step
        # history
        if not trunk:
            if len(tab.history) != self.hist_len + 1:
                raise Fail('history', 'step() recorded %d entries' % (len(tab.history) - self.hist_len))
            if tab.history[-1] is not entry:
                raise Fail('history', 'the returned entry is not the last history entry')
            rh = entry.rule.history
            if not len(rh) or rh[-1] is not entry.target:
                raise Fail('history', "the rule's own history does not end with the applied target")
            if entry.target.get('rule') is not entry.rule:
                raise Fail('history', 'recorded target names another rule')
            if self.apply_events != len(tab.history):
                raise Fail('events', 'AFTER_RULE_APPLY announced %d times for %d steps' % (self.apply_events, len(tab.history)))
        self.hist_len = len(tab.history)
        # branches vs shadow, growth, closed never extended
        if len(tab) != len(self.branches):
            raise Fail('events', 'tableau has %d branches, %d were announced' % (len(tab), len(self.branches)))
        for i, b in enumerate(tab):
            sb = self.branches[i]
            if sb['obj'] is not b:
                raise Fail('branches', 'branch order differs from announcement order')
            nodes = list(b)
            if len(nodes) != len(sb['nodes']) or any(x is not y for x, y in zip(nodes, sb['nodes'])):
                raise Fail('events', 'branch #%d nodes differ from the announced additions (%d vs %d)' % (i, len(nodes), len(sb['nodes'])))
            if b.closed != sb['closed']:
                raise Fail('events', 'branch #%d closed=%s but close event says %s' % (i, b.closed, sb['closed']))
            ids = tuple(id(n) for n in nodes)
            old = self.snap.get(id(b))
            if old is not None:
                oids, oclosed = old
                if ids[:len(oids)] != oids:
                    raise Fail('grow-only', 'branch #%d lost or reordered nodes' % i)
                if oclosed and ids != oids:
                    raise Fail('closed-extended', 'closed branch #%d was extended' % i)
            else:
                if sb['forked_from'] is not None:
                    pf = sb['forked_from']
                    if len(nodes) < len(pf) or any(x is not y for x, y in zip(nodes, pf)):
                        raise Fail('fork', 'new branch #%d does not extend its parent\'s nodes as of the fork' % i)
                    if b.parent is not sb['parent']['obj']:
                        raise Fail('fork', 'parent mismatch on branch #%d' % i)
            self.snap[id(b)] = (ids, b.closed)
            # ticks
            for n in nodes:
                if b.is_ticked(n) != (id(n) in sb['ticked']):
                    raise Fail('events', 'tick state of a node on branch #%d differs from announced ticks' % i)
        # open view
        opens = [b for b in tab if not b.closed]
        if len(tab.open) != len(opens) or any(x is not y for x, y in zip(tab.open, opens)):
            raise Fail('open-view', 'open view lists %d branches, %d are unclosed (or order differs)' % (len(tab.open), len(opens)))
        # the view is a sequence: reading it by position (from either end) and by membership agrees
        no = len(opens)
        for j in range(no):
            if tab.open[j] is not opens[j] or tab.open[j - no] is not opens[j]:
                raise Fail('open-view', 'open view position %d (of %d) is not the %d-th unclosed branch' % (j, no, j))
        for b in tab:
            if (b in tab.open) != (not b.closed):
                raise Fail('open-view', 'open view membership of a branch disagrees with branch.closed')
        # stat() step numbers
        K = Tableau.StatKey
        for i, b in enumerate(tab):
            for n in b:
                try:
                    st = tab.stat(b, n)
                except KeyError:
                    continue
                rec = (num(st[K.STEP_ADDED]), None if st[K.STEP_TICKED] is None else num(st[K.STEP_TICKED]))
                if rec[1] is not None and not b.is_ticked(n):
                    raise Fail('stat', 'tick recorded at step %s for a node of branch #%d that is not ticked there' % (rec[1], i))
                old = self.recorded.get((id(b), id(n)))
                if old is not None:
                    if old[0] != rec[0] or (old[1] is not None and old[1] != rec[1]):
                        raise Fail('stat', 'recorded steps of a node on branch #%d changed after the fact: (added, ticked) %s -> %s' % (i, old, rec))
                self.recorded[(id(b), id(n))] = rec
                if b.closed and rec[1] is not None and rec[1] > num(tab.stat(b)[K.STEP_CLOSED]):
                    raise Fail('stat', 'tick recorded at step %s after branch #%d closed at step %s' % (rec[1], i, tab.stat(b)[K.STEP_CLOSED]))
        for i, b in enumerate(tab):
            last = 0
            for n in b:
                st = self._nodestat(tab, b, n)
                if st is None:
                    raise Fail('stat', 'no stat() entry for a node of branch #%d' % i)
                sa = st[K.STEP_ADDED]
                if num(sa) > cur:
                    raise Fail('stat', 'node on branch #%d recorded as added at future step %s > %s' % (i, sa, cur))
                if num(sa) < last:
                    raise Fail('stat', 'addition steps decrease along branch #%d (%s after %s)' % (i, sa, last))
                last = num(sa)
                if getattr(n, 'step', None) is not None and False:
                    pass
            for n in b:
                if b.is_ticked(n):
                    st = self._tickstat(tab, b, n)
                    if st is not None:
                        tk = st[K.STEP_TICKED]
                        if tk is None or num(tk) > cur or num(tk) < num(st[K.STEP_ADDED]):
                            raise Fail('stat', 'tick step %s of a node on branch #%d not within [added %s, current %s]' % (tk, i, st[K.STEP_ADDED], cur))
            bs = tab.stat(b)
            if num(bs[K.STEP_ADDED]) > cur:
                raise Fail('stat', 'branch #%d recorded as added in the future' % i)
            if b.closed:
                sc = num(bs[K.STEP_CLOSED])
                if sc > cur or sc < num(bs[K.STEP_ADDED]):
                    raise Fail('stat', 'branch #%d closure step %s not within [%s, %s]' % (i, sc, bs[K.STEP_ADDED], cur))
            if bs[K.INDEX] != i:
                raise Fail('stat', 'branch #%d has recorded index %s' % (i, bs[K.INDEX]))

    def _nodestat(self, tab, b, n):
        # the entry of the branch the node was really added on (the oldest ancestor having
        # one); a copy only gets a default-valued entry if it later ticks an inherited node
        found = None
        while b is not None:
            try:
                found = tab.stat(b, n)
            except KeyError:
                pass
            b = b.parent
        return found

    def _tickstat(self, tab, b, n):
        K = Tableau.StatKey
        while b is not None:
            try:
                st = tab.stat(b, n)
                if st[K.STEP_TICKED] is not None:
                    return st
            except KeyError:
                pass
            b = b.parent
        return None

    def on_finish(self, tab, res):
        if self.error:
            raise Fail(*self.error)
        if not tab.finished:
            return
        if self.finish_events != 1:
            raise Fail('events', 'AFTER_FINISH announced %d times' % self.finish_events)
        tree = tab.tree
        if tree is None:
            if not res.timed_out:
                raise Fail('tree', 'finished without timeout but no tree')
            return
        self.check_tree(tab, tree)
        st = tab.stats
        exp = dict(branches=len(tab), open_branches=sum(1 for b in tab if not b.closed),
                   closed_branches=sum(1 for b in tab if b.closed), steps=len(tab.history),
                   distinct_nodes=len({id(n) for b in tab for n in b}))
        for k, v in exp.items():
            if st.get(k) != v:
                raise Fail('stats', 'stats[%r] is %r, observable count is %r' % (k, st.get(k), v))
        word = 'Valid' if tab.valid else 'Invalid' if tab.invalid else 'Completed' if tab.completed else 'Unfinished'
        if st.get('result') != word:
            raise Fail('stats', 'stats result %r but tableau is %s' % (st.get('result'), word))

    def check_tree(self, tab, tree):
        branches = {id(b): b for b in tab}
        leaves = []
        counter = [0]
        def walk(t, path, depth, lo):
            nodes = path + list(t.nodes)
            if t.depth != depth:
                raise Fail('tree', 'structure depth %s, recomputed %s' % (t.depth, depth))
            if not (t.left is not None and t.right is not None and t.left < t.right):
                raise Fail('tree', 'left/right %s/%s not ordered' % (t.left, t.right))
            if t.left <= lo:
                raise Fail('tree', 'left value %s not after %s' % (t.left, lo))
            if not t.children:
                if not t.leaf:
                    raise Fail('tree', 'childless structure not marked leaf')
                leaves.append((t, nodes))
                w, sc, dn = 1, len(t.nodes), 0
                ho, hc = bool(t.open), bool(t.closed)
                if t.open == t.closed:
                    raise Fail('tree', 'leaf open=%s closed=%s' % (t.open, t.closed))
                hi = t.left
            else:
                if t.leaf:
                    raise Fail('tree', 'structure with children marked leaf')
                w = 0; dn = 0; ho = hc = False
                hi = t.left
                for c in t.children:
                    cw, csc, cho, chc, chi = walk(c, nodes, depth + 1, hi)
                    w += cw; dn += csc; ho |= cho; hc |= chc
                    hi = chi
                sc = len(t.nodes) + dn
            if t.right <= hi:
                raise Fail('tree', 'right value %s not after nested %s' % (t.right, hi))
            if t.width != w:
                raise Fail('tree', 'width %s, recomputed %s' % (t.width, w))
            if t.descendant_node_count != dn:
                raise Fail('tree-counts', 'descendant_node_count %s, recomputed %s' % (t.descendant_node_count, dn))
            if t.structure_node_count != sc:
                raise Fail('tree-counts', 'structure_node_count %s, recomputed %s' % (t.structure_node_count, sc))
            if bool(t.has_open) != ho or bool(t.has_closed) != hc:
                raise Fail('tree', 'has_open/has_closed %s/%s, recomputed %s/%s' % (t.has_open, t.has_closed, ho, hc))
            return w, sc, ho, hc, t.right
        walk(tree, [], 0, 0)
        if len(leaves) != len(tab):
            raise Fail('tree', '%d leaves for %d branches' % (len(leaves), len(tab)))
        seen = set()
        for leaf, nodes in leaves:
            b = branches.get(leaf.branch_id)
            if b is None or id(b) in seen:
                raise Fail('tree', 'leaf does not name a distinct branch')
            seen.add(id(b))
            bn = list(b)
            if len(bn) != len(nodes) or any(x is not y for x, y in zip(bn, nodes)):
                raise Fail('tree', 'root-to-leaf path differs from the branch it names')
            if bool(leaf.closed) != b.closed:
                raise Fail('tree', 'leaf closed=%s but branch closed=%s' % (leaf.closed, b.closed))
        dn = len({id(n) for b in tab for n in b})
        if tree.distinct_nodes != dn:
            raise Fail('tree-counts', 'distinct_nodes %s, recomputed %s' % (tree.distinct_nodes, dn))
        if len(tab) and tree.width != len(tab):
            raise Fail('tree', 'root width %s for %d branches' % (tree.width, len(tab)))

def make_cfg(ctx):
    rng = ctx.rng('workload')
    logic = proofwl.pick_logic(rng, ctx.index, SALTS)
    prems, conc = proofwl.gen_case(rng, logic)
    srng = ctx.rng('schedule')
    opts = proofwl.gen_opts(srng)
    frng = ctx.rng('faults')
    if frng.random() < 0.4:
        opts['max_steps'] = frng.choice((1, 2, 3, 5, 8, 13, 21, 40))
    else:
        opts['max_steps'] = MAX_STEPS_GUARD
    return proofsim.Config(logic, prems, conc, opts,
        order_seed=srng.choice((0, srng.getrandbits(32), srng.getrandbits(32))),
        cache=srng.choice(proofsim.CACHE_SIZES), drive=srng.choice(('step', 'stepiter')), late_setup=True)

def judge(cfg):
    sh = Shadow(cfg)
    try:
        res = proofsim.run(cfg, sh)
    except Fail as f:
        return (f.clause, f.msg), None, sh
    if isinstance(res.error, Fail):
        return (res.error.clause, res.error.msg), res, sh
    # (the build raising by itself is C09's business, not C16's)
    return None, res, sh

def check_cfg(ctx, cfg):
    v, res, sh = judge(cfg)
    arg = lexgen.argstr(cfg.prems, cfg.conc)
    if res is not None:
        dg = proofcheck.kernel_digest(res)
        ctx.log(cfg.logic, arg, res.outcome, len(res.steps), dg)
        ctx.count('outcome.' + res.outcome.split(':')[0])
        ctx.count('evaluations', sh.checked_steps)
        ctx.count('steps_checked', sh.checked_steps)
        ctx.count('probe.forks', sh.forks)
        ctx.count('probe.closures', sh.closures)
        if cfg.opts.get('max_steps') and res.outcome == 'premature':
            ctx.count('fault.step_limit')
        if sh.forks or sh.closures:
            ctx.nontrivial((cfg.logic, arg, dg))
        ctx.sample(dict(logic=cfg.logic, argument=arg, opts=cfg.opts, order_seed=cfg.order_seed,
                        outcome=res.outcome, steps=len(res.steps), forks=sh.forks, closures=sh.closures))
    else:
        ctx.log(cfg.logic, arg, 'fail')
    if v is not None:
        clause, msg = v
        key = key_of(clause, msg)
        proofcheck.report(ctx, ID, clause, cfg, '%s %s: %s' % (cfg.logic, arg, msg), key)

def run(ctx):
    check_cfg(ctx, make_cfg(ctx))

def replay(ctx, spec):
    check_cfg(ctx, proofsim.Config.from_json(spec['cfg']))

def key_of(clause, msg):
    # the first word of the message names the attribute / event concerned
    w = msg.split()[0]
    return '%s|%s' % (clause, w if w.isidentifier() else clause)

def _key(cfg):
    v, _, _ = judge(cfg)
    return key_of(*v) if v else None

def minimise(ctx, v):
    return proofcheck.minimise_violation(v, _key)
