"""C06 — new constants and new worlds are always fresh (branchsim histories + proofsim step monitor)."""
from __future__ import annotations

from pytableaux.proof.common import SentenceNode

from .. import branchsim, diagnose, lexgen, proofsim, proofwl, proofcheck
from ..kernel import Violation, ddmin
from ..ref import refsem

ID = 'C06'
LEVEL = 'exploration'
SALTS = 8
RULE = ('each run = (o) its slice of the exhaustive enumeration of all branch histories of depth 4 (thorough: 5) over a 21-operation alphabet '
        '(sentence nodes over 6 constant lists x 2 worlds, quantifier-initial sentences, 3 access nodes, copy, fork, a new root branch, bulk extend() from another branch; every target branch), '
        'checked like (i); (i) 4 branch histories of <=10 operations (append a sentence node mentioning 0-3 constants from a 7-constant '
        'pool incl. subscripts in a seeded order, at a seeded world / no world; append an access node; copy(); fork-style copy '
        'with parent; a new root branch; extend() / += from another Branch object) with, after EVERY operation and on EVERY live branch, new_constant() absent from all sentences on the '
        'branch, new_world() absent from all nodes, and the published constants/worlds equal to the occurring ones; (ii) one '
        'whole proof (generated argument, biased to witness-introducing quantifier / modal / serial steps, constants in '
        'non-alphabetical first-appearance order) where after every step any constant (world) introduced by a ticking quantifier '
        'or modal rule or by the serial rule must have been absent from the branch before the step. distinct_nontrivial = '
        'distinct (history shape) and (logic, rule) witness steps checked')
ASSUMPTIONS = ['R5: the symbols occurring on a branch are recomputed from its nodes (sentence.constants, world/world1/world2 keys)']

def plan(tier):
    return dict(runs=2400 if tier == 'quick' else 80000, timeout=900 if tier == 'quick' else 9000)

# -- exhaustive part: every history over a small alphabet of operations up to a depth bound

ALPHA = ([['sent', cs, w, None, False] for cs in ([], [0], [3], [4], [6], [3, 0]) for w in (None, 1)] +
         [['sent', cs, None, True, True] for cs in ([0], [3])] +
         [['access', 0, 1], ['access', 1, 0], ['access', 2, 5]] + [['copy'], ['fork'], ['new'], ['extend', 1]])

def enum_depth(tier):
    return 4 if tier == 'quick' else 5

def enum_size(depth):
    n = 1
    for i in range(depth):
        n *= len(ALPHA) * (i + 1)
    return n

def decode_history(code, depth):
    "code -> history (None if it names a branch that does not exist yet)."
    ops, nb = [], 1
    for i in range(depth):
        base = len(ALPHA) * (i + 1)
        code, d = divmod(code, base)
        b, a = divmod(d, len(ALPHA))
        if b >= nb:
            return None
        t = ALPHA[a]
        ops.append([t[0], b] + [list(x) if isinstance(x, list) else x for x in t[1:]])
        if t[0] in ('copy', 'fork', 'new'):
            nb += 1
    return ops

def judge_history(ctx, ops, record=True):
    log = []
    r = branchsim.execute_fresh(ops, log)
    ctx.log('history', ops if len(ops) < 12 else len(ops), None if r is None else r[1][:80])
    if record:
        ctx.count('evaluations', len(ops))
        ctx.nontrivial(('hist', tuple((o[0], tuple(o[2]) if o[0] == 'sent' else None) for o in ops[:6])))
        ctx.count('fault.fork_or_copy', sum(1 for o in ops if o[0] in ('copy', 'fork')))
        ctx.sample(dict(history=ops[:8]))
    if r is not None:
        step, msg = r
        what = 'constant' if 'new_constant' in msg or 'constants' in msg else 'world'
        key = 'stale-next%s' % ('const' if what == 'constant' else 'world') if 'new_' in msg else 'published-%ss' % what
        ctx.violation(ID + '/not-fresh', key, msg, dict(history=ops[:step + 1]))

class FreshMonitor:
    def __init__(self, sem):
        self.sem = sem
        self.bad = None
        self.witness_steps = 0
        self.rules = set()
    def on_created(self, tab, res): pass
    def on_trunk(self, tab, res): pass
    def on_finish(self, tab, res): pass
    def on_step(self, tab, res, entry):
        if self.bad:
            return
        rule = entry.rule
        name = rule.name
        is_serial = name == 'Serial'
        witnessy = is_serial or (rule.ticking and (getattr(rule, 'quantifier', None) is not None or
                    (getattr(rule, 'operator', None) is not None and getattr(rule.operator, 'name', '') in refsem.MODAL)))
        if not witnessy or entry.target.get('flag'):
            return
        k = len(tab.history)      # nodes added by the k-th step carry step == k
        t = entry.target
        node = t.get('node')
        base_consts, base_worlds = set(), set()
        if node is not None and isinstance(node, SentenceNode):
            base_consts = {(c.index, c.subscript) for c in node['sentence'].constants}
        if node is not None:
            base_worlds = {w for w in (node.get('world'), node.get('world1'), node.get('world2')) if isinstance(w, int)}
        if is_serial and t.get('world') is not None:
            base_worlds.add(t.get('world'))
        checked = False
        for b in tab:
            added = [n for n in b if getattr(n, 'step', None) == k]
            if not added:
                continue
            before = [n for n in b if getattr(n, 'step', 0) < k]
            bc, bw = set(), set()
            for n in before:
                if isinstance(n, SentenceNode):
                    bc |= {(c.index, c.subscript) for c in n['sentence'].constants}
                for key in ('world', 'world1', 'world2'):
                    w = n.get(key)
                    if isinstance(w, int): bw.add(w)
            for n in added:
                if isinstance(n, SentenceNode):
                    for c in n['sentence'].constants:
                        ck = (c.index, c.subscript)
                        if ck not in base_consts:
                            checked = True
                            if ck in bc:
                                self.bad = ('witness-not-fresh', 'rule %s introduced constant %s%s which already occurred on the branch' % (
                                    name, lexgen.CONSTS[c.index], c.subscript or ''), rule)
                                return
                for key in ('world', 'world1', 'world2'):
                    w = n.get(key)
                    if isinstance(w, int) and w not in base_worlds:
                        checked = True
                        if w in bw:
                            self.bad = ('witness-not-fresh', 'rule %s introduced world %s which already occurred on the branch' % (name, w), rule)
                            return
        if checked:
            self.witness_steps += 1
            self.rules.add(name)

def judge_proof(ctx, cfg, record=True):
    sem = refsem.get(cfg.logic)
    mon = FreshMonitor(sem)
    res = proofsim.run(cfg, mon)
    arg = lexgen.argstr(cfg.prems, cfg.conc)
    ctx.log(cfg.logic, arg, res.outcome, len(res.steps), mon.witness_steps)
    if record:
        ctx.count('evaluations', len(res.steps))
        ctx.count('probe.witness_steps_checked', mon.witness_steps)
        for r in mon.rules:
            ctx.nontrivial(('rule', proofcheck.base_logic(cfg.logic), r))
    if mon.bad:
        clause, msg, rule = mon.bad
        proofcheck.report(ctx, ID, clause, cfg, '%s %s: %s' % (cfg.logic, arg, msg), '%s|rule=%s' % (clause, diagnose.rule_id(rule)))

def run(ctx):
    rng = ctx.rng('workload')
    depth = enum_depth(ctx.tier)
    total = enum_size(depth)
    per = -(-total // plan(ctx.tier)['runs'])
    for code in range(ctx.index * per, min(total, (ctx.index + 1) * per)):
        ops = decode_history(code, depth)
        if ops is None:
            continue
        r = branchsim.execute_fresh(ops, [])
        ctx.count('enumerated_histories')
        if r is not None:
            judge_history(ctx, ops, record=False)
            return
    for k in range(4):
        judge_history(ctx, branchsim.gen_fresh_ops(rng, rng.choice((2, 3, 4, 6, 10))))
        if ctx.violations:
            return
    sem_ok = [l for l in proofwl.weighted_logics() if refsem.get(l).modal or refsem.get(l).quantified]
    logic = sem_ok[(ctx.index // SALTS) % len(sem_ok)]
    sem = refsem.get(logic)
    r = rng.random()
    if sem.quantified and sem.modal and r < 0.34:
        prems, conc = proofwl.modal_fo_template(rng, identity=sem.classical)
    elif sem.quantified and (not sem.modal or r < 0.67):
        prems, conc = proofwl.fo_template(rng, identity=sem.classical) if rng.random() < 0.6 else proofwl.gen_case(rng, logic, 'fo')
    else:
        prems, conc = proofwl.modal_template(rng) if rng.random() < 0.6 else proofwl.gen_case(rng, logic, 'modal')
    srng = ctx.rng('schedule')
    opts = proofwl.gen_opts(srng, models=False)
    opts['max_steps'] = 150
    judge_proof(ctx, proofsim.Config(logic, prems, conc, opts, order_seed=srng.choice((0, srng.getrandbits(32))),
        cache=srng.choice(proofsim.CACHE_SIZES), drive='step'))

def replay(ctx, spec):
    if 'history' in spec:
        judge_history(ctx, spec['history'], record=False)
    else:
        judge_proof(ctx, proofsim.Config.from_json(spec['cfg']), record=False)

def minimise(ctx, v):
    if 'history' not in v.spec:
        return None
    def fails(ops):
        try:
            return branchsim.execute_fresh(ops) is not None
        except Exception:
            return False
    ops = ddmin(v.spec['history'], fails, budget=80)
    r = branchsim.execute_fresh(ops)
    if r is None:
        return None
    return Violation(v.clause, v.key, r[1], dict(history=ops), None)
