"""C10 — provability obeys the structural laws of a consequence relation (proofsim families)."""
from __future__ import annotations

from .. import lexgen, proofsim, proofwl, proofcheck
from ..ref import refsem

ID = 'C10'
LEVEL = 'exploration'
SALTS = 8
GUARD_STEPS = 250
RULE = ('each run = one generated base argument (propositional / modal / first-order with identity) in one logic (stratified '
        'over the 57) and its relatives: (1) reflexivity: the argument with its conclusion added as a premise at a seeded '
        'position; (2) monotonicity: the argument plus a generated extra premise, and (half of the runs) the argument plus 3-8 extra premises that all repeat one of its subformulas next to letters of their own or open further worlds; (3) renaming: an injective renaming of sentence '
        'letters, constants (incl. order-reversing), predicates (same arity) and bound variables. Every member is proved under '
        '2 independent seeded configurations (options, drive mode, tie-break order, cache size). Laws: (1) never refuted and, if '
        'a verdict is reached, valid; (2) base valid in some run => extended never refuted; (3) never valid on one side and '
        'refuted on the other. distinct_nontrivial = distinct (logic, base argument) whose family reached >=1 verdict on each side of a law')
ASSUMPTIONS = [
    'limit-only outcomes (premature, every open branch flagged) are not verdicts and are never compared',
    'conflicts are attributed to a root cause with the reference semantics R1 (sim/proofcheck.py explain_conflict)',
]

def plan(tier):
    return dict(runs=960 if tier == 'quick' else 16000, timeout=900 if tier == "quick" else 10800)

def rename(rng, prems, conc):
    "Injective renaming of letters, constants, predicates (arity kept), bound variables."
    sents = list(prems) + [conc]
    atoms, consts, preds, vars_ = [], [], [], []
    for s in sents:
        for x in refsem.walk(s):
            if x[0] == 'A' and x not in atoms: atoms.append(x)
            elif x[0] == 'P':
                if x[1] not in preds and x[1][0] >= 0: preds.append(x[1])
                for p in x[2]:
                    if p[0] == 'c' and p not in consts: consts.append(p)
            elif x[0] == 'Q':
                v = ('v',) + tuple(x[2])
                if v not in vars_: vars_.append(v)
    def inj(items, mk, pool):
        pool = list(pool)
        while len(pool) < len(items):        # arguments with very many symbols: higher subscripts
            pool.append((len(pool) % 4, 2 + len(pool) // 4))
        rng.shuffle(pool)
        if rng.random() < 0.3:
            pool.sort(reverse=True)          # order-reversing
        return {it: mk(pool[i]) for i, it in enumerate(items)}
    amap = inj(atoms, lambda k: ('A', k[0], k[1]), [(i, s) for i in range(5) for s in range(2)])
    cmap = inj(consts, lambda k: ('c', k[0], k[1]), [(i, s) for i in range(4) for s in range(2)])
    vmap = inj(vars_, lambda k: ('v', k[0], k[1]), [(i, s) for i in range(4) for s in range(2)])
    pmap = {}
    pool = [(i, s) for i in range(4) for s in range(3)]
    while len(pool) < len(preds):
        pool.append((len(pool) % 4, 3 + len(pool) // 4))
    rng.shuffle(pool)
    for i, pk in enumerate(preds):
        pmap[pk] = (pool[i][0], pool[i][1], pk[2])
    def f(s):
        k = s[0]
        if k == 'A': return amap[s]
        if k == 'P':
            return ('P', pmap.get(s[1], s[1]), tuple(cmap[p] if p[0] == 'c' else vmap[p] for p in s[2]))
        if k == 'O': return ('O', s[1], tuple(f(x) for x in s[2]))
        v = vmap[('v',) + tuple(s[2])]
        return ('Q', s[1], (v[1], v[2]), f(s[3]))
    return [f(p) for p in prems], f(conc)

def near_variants(rng, s):
    "Closed sentences one edit away from s."
    out = []
    def edit(x):
        k = x[0]
        if k == 'A':
            return [('A', x[1], x[2] + 1), ('A', (x[1] + 1) % 5, x[2])]
        if k == 'P':
            res = []
            ps = list(x[2])
            if len(ps) >= 2 and ps[0] != ps[1]:
                res.append(('P', x[1], tuple(ps[::-1])))
            for i, p in enumerate(ps):
                if p[0] == 'c':
                    res.append(('P', x[1], tuple(ps[:i] + [('c', p[1], p[2] + 1)] + ps[i + 1:])))
                    res.append(('P', x[1], tuple(ps[:i] + [('c', (p[1] + 1) % 4, p[2])] + ps[i + 1:])))
            if x[1][0] >= 0:
                res.append(('P', (x[1][0], x[1][1] + 1, x[1][2]), x[2]))
            return res
        if k == 'O':
            res = []
            if len(x[2]) == 2 and x[2][0] != x[2][1]:
                res.append(('O', x[1], (x[2][1], x[2][0])))
            for i, y in enumerate(x[2]):
                for z in edit(y)[:2]:
                    res.append(('O', x[1], x[2][:i] + (z,) + x[2][i + 1:]))
            return res
        if k == 'Q':
            res = [('Q', x[1], x[2], z) for z in edit(x[3])[:2]]
            v = ('v',) + tuple(x[2])
            nv = ('v', x[2][0], x[2][1] + 1)
            if nv not in refsem._free_vars(x[3]):
                res.append(('Q', x[1], (nv[1], nv[2]), refsem.subst(x[3], v, nv)))
            return res
        return []
    for z in edit(s):
        if z != s and not refsem._free_vars(z) and z not in out:
            out.append(z)
    rng.shuffle(out)
    return out

def two_cfgs(srng, logic, prems, conc):
    out = []
    for k in range(2):
        opts = dict(proofwl.ALL_OPT_COMBOS[srng.randrange(4)])
        opts['is_build_models'] = (k == 0)          # one run with models (for diagnosis), one without
        opts['max_steps'] = GUARD_STEPS
        out.append(proofsim.Config(logic, prems, conc, opts, order_seed=0 if k == 0 else srng.getrandbits(32),
            cache=srng.choice(proofsim.CACHE_SIZES), drive=srng.choice(('build', 'step'))))
    return out

def make_family(ctx):
    rng = ctx.rng('workload')
    logic = proofwl.pick_logic(rng, ctx.index, SALTS)
    prems, conc = proofwl.gen_case(rng, logic)
    serial = refsem.get(logic).frame == 'D'
    if serial and rng.random() < 0.4:
        prems, conc = proofwl.dead_end_template(rng)
    prof = proofwl.profile_for(rng, logic)
    fam = dict(base=(prems, conc))
    rp = list(prems)
    rp.insert(rng.randrange(len(rp) + 1), conc)
    if rng.random() < 0.25:
        rp.insert(rng.randrange(len(rp) + 1), conc)       # the shared sentence occurs twice
    if rng.random() < 0.5:
        # near-miss distractors: sentences that differ from the shared one in a single detail
        # (argument order, a subscript, operand order, bound variable) placed around it
        for v in near_variants(rng, conc)[:rng.choice((1, 2))]:
            rp.insert(rng.randrange(len(rp) + 1) if rng.random() < 0.5 else len(rp), v)
    fam['reflexive'] = (rp, conc)
    if rng.random() < 0.35:
        # literal reflexivity: the shared sentence is a literal, surrounded by literals that differ
        # from it in one detail (closure must tell them apart and still find the real clash)
        cs = rng.sample(range(4), 2)
        lit = rng.choice((
            ('P', (rng.randrange(2), rng.choice((0, 0, 1)), 2), (('c', cs[0], 0), ('c', cs[1], rng.choice((0, 0, 1))))),
            ('P', (0, 0, 3), (('c', cs[0], 0), ('c', cs[1], 0), ('c', cs[0], 0))),
            ('P', (0, 0, 1), (('c', cs[0], rng.choice((0, 1, 11))),)),
            ('A', rng.randrange(3), rng.choice((0, 1, 10)))))
        if rng.random() < 0.3:
            lit = ('O', 'Negation', (lit,))
        vs = near_variants(rng, lit)[:rng.choice((1, 2, 3))]
        k = rng.randrange(len(vs) + 1)
        fam['reflexive'] = (vs[:k] + [lit] + vs[k:] + ([rng.choice(prems)] if prems and rng.random() < 0.3 else []), lit)
    extra = lexgen.gen_sentence(rng, prof, depth=rng.choice((0, 1, 2)))
    if refsem.get(logic).modal and rng.random() < (0.6 if serial else 0.3):
        # a premise that only opens or demands further worlds
        x = ('A', rng.randrange(3), 0)
        extra = rng.choice((('O', 'Necessity', (('O', 'Possibility', (x,)),)), ('O', 'Possibility', (x,)), ('O', 'Necessity', (x,))))
    mp = list(prems)
    mp.insert(0 if rng.random() < 0.3 else rng.randrange(len(mp) + 1), extra)
    fam['extended'] = (mp, conc)
    fam['renamed'] = rename(rng, prems, conc)
    if prems and rng.random() < 0.5:
        fam['extended2'] = (bulk_extension(rng, prems, refsem.get(logic).modal), conc)
    return logic, fam

def bulk_extension(rng, prems, modal):
    return proofwl.bulk_premises(rng, prems, modal)

def two_cfgs(srng, logic, prems, conc):
    out = []
    for k in range(2):
        opts = dict(proofwl.ALL_OPT_COMBOS[srng.randrange(4)])
        opts['is_build_models'] = (k == 0)          # one run with models (for diagnosis), one without
        opts['max_steps'] = GUARD_STEPS
        out.append(proofsim.Config(logic, prems, conc, opts, order_seed=0 if k == 0 else srng.getrandbits(32),
            cache=srng.choice(proofsim.CACHE_SIZES), drive=srng.choice(('build', 'step'))))
    return out

def make_family(ctx):
    rng = ctx.rng('workload')
    logic = proofwl.pick_logic(rng, ctx.index, SALTS)
    prems, conc = proofwl.gen_case(rng, logic)
    serial = refsem.get(logic).frame == 'D'
    if serial and rng.random() < 0.4:
        prems, conc = proofwl.dead_end_template(rng)
    prof = proofwl.profile_for(rng, logic)
    fam = dict(base=(prems, conc))
    rp = list(prems)
    rp.insert(rng.randrange(len(rp) + 1), conc)
    if rng.random() < 0.25:
        rp.insert(rng.randrange(len(rp) + 1), conc)       # the shared sentence occurs twice
    if rng.random() < 0.5:
        # near-miss distractors: sentences that differ from the shared one in a single detail
        # (argument order, a subscript, operand order, bound variable) placed around it
        for v in near_variants(rng, conc)[:rng.choice((1, 2))]:
            rp.insert(rng.randrange(len(rp) + 1) if rng.random() < 0.5 else len(rp), v)
    fam['reflexive'] = (rp, conc)
    if rng.random() < 0.35:
        # literal reflexivity: the shared sentence is a literal, surrounded by literals that differ
        # from it in one detail (closure must tell them apart and still find the real clash)
        cs = rng.sample(range(4), 2)
        lit = rng.choice((
            ('P', (rng.randrange(2), rng.choice((0, 0, 1)), 2), (('c', cs[0], 0), ('c', cs[1], rng.choice((0, 0, 1))))),
            ('P', (0, 0, 3), (('c', cs[0], 0), ('c', cs[1], 0), ('c', cs[0], 0))),
            ('P', (0, 0, 1), (('c', cs[0], rng.choice((0, 1, 11))),)),
            ('A', rng.randrange(3), rng.choice((0, 1, 10)))))
        if rng.random() < 0.3:
            lit = ('O', 'Negation', (lit,))
        vs = near_variants(rng, lit)[:rng.choice((1, 2, 3))]
        k = rng.randrange(len(vs) + 1)
        fam['reflexive'] = (vs[:k] + [lit] + vs[k:] + ([rng.choice(prems)] if prems and rng.random() < 0.3 else []), lit)
    extra = lexgen.gen_sentence(rng, prof, depth=rng.choice((0, 1, 2)))
    if refsem.get(logic).modal and rng.random() < (0.6 if serial else 0.3):
        # a premise that only opens or demands further worlds
        x = ('A', rng.randrange(3), 0)
        extra = rng.choice((('O', 'Necessity', (('O', 'Possibility', (x,)),)), ('O', 'Possibility', (x,)), ('O', 'Necessity', (x,))))
    mp = list(prems)
    mp.insert(0 if rng.random() < 0.3 else rng.randrange(len(mp) + 1), extra)
    fam['extended'] = (mp, conc)
    fam['renamed'] = rename(rng, prems, conc)
    if prems and rng.random() < 0.5:
        fam['extended2'] = (bulk_extension(rng, prems, refsem.get(logic).modal), conc)
    return logic, fam

def bulk_extension(rng, prems, modal):
    """Many extra premises at once, all repeating one sentence of the argument next to letters of
    their own (so that the same node content piles up on a branch, or in many worlds)."""
    pool = [x for s in prems for x in refsem.walk(s) if not refsem._free_vars(x)]
    pool.sort(key=refsem.size)
    p = rng.choice(pool[:max(1, len(pool) // 2)])
    extras = []
    for i in range(rng.choice((3, 5, 6, 7, 8))):
        fresh = ('A', 3 + i % 2, 1 + i // 2)
        r = rng.random()
        if r < 0.55: e = ('O', 'Conjunction', (p, fresh))
        elif r < 0.75: e = ('O', 'Conjunction', (fresh, p))
        elif modal and r < 0.95: e = ('O', 'Possibility', (fresh,))
        else: e = p
        extras.append(e)
    mp = list(prems)
    at = rng.randrange(len(mp) + 1)
    return mp[:at] + extras + mp[at:] if rng.random() < 0.5 else mp + extras

def judge_family(ctx, logic, fam, record=True):
    srng = ctx.rng('schedule')
    runs = {}
    for name in ('base', 'reflexive', 'extended', 'extended2', 'renamed'):
        if name not in fam:
            continue
        prems, conc = fam[name]
        runs[name] = [(c, proofsim.run(c)) for c in two_cfgs(srng, logic, prems, conc)]
    barg = lexgen.argstr(*fam['base'])
    ctx.log(logic, barg, {k: [r.outcome for c, r in v] for k, v in runs.items()})
    def cls(name, what):
        return [(c, r) for c, r in runs.get(name, []) if r.outcome == what]
    covered = 0
    viol = None
    # (1) reflexivity
    if 'reflexive' in runs:
        bad = cls('reflexive', 'refuted')
        err = [(c, r) for c, r in runs.get('reflexive', []) if r.outcome.startswith('error')]
        if err and not bad:
            c, r = err[0]
            viol = ('reflexivity', 'raises|' + proofcheck.raise_site(r.error),
                    '%s %s: the conclusion is a premise, yet the build raises %s: %s' % (logic, lexgen.argstr(c.prems, c.conc), type(r.error).__name__, r.error), [c])
        if bad:
            c, r = bad[0]
            key, why = explain_refuted_valid(ctx, c, r)
            viol = ('reflexivity', key, '%s %s: the conclusion is a premise, yet the tableau refutes it; %s' % (logic, lexgen.argstr(c.prems, c.conc), why), [c])
        elif cls('reflexive', 'valid'):
            covered += 1
    # (2) monotonicity
    for ext in ('extended', 'extended2'):
        if viol is None and cls('base', 'valid') and ext in runs:
            bad = cls(ext, 'refuted')
            if bad:
                key, why = proofcheck.explain_conflict(ctx.rng('r1'), cls('base', 'valid')[0], bad[0])
                viol = ('monotonicity', key, '%s: %s is valid but with %s is refuted; %s' % (
                    logic, barg, 'an extra premise %s' % lexgen.argstr(bad[0][0].prems, bad[0][0].conc) if ext == 'extended' else
                    'several extra premises (%s)' % lexgen.argstr(bad[0][0].prems, bad[0][0].conc), why), [cls('base', 'valid')[0][0], bad[0][0]])
            elif cls(ext, 'valid'):
                covered += 1
    # (3) renaming
    if viol is None and 'renamed' in runs:
        for a, b in (('base', 'renamed'), ('renamed', 'base')):
            va, rb = cls(a, 'valid'), cls(b, 'refuted')
            if va and rb:
                key, why = proofcheck.explain_conflict(ctx.rng('r1'), va[0], rb[0])
                viol = ('renaming', key, '%s: %s is valid but its renaming %s is refuted; %s' % (
                    logic, lexgen.argstr(va[0][0].prems, va[0][0].conc), lexgen.argstr(rb[0][0].prems, rb[0][0].conc), why), [va[0][0], rb[0][0]])
                break
        else:
            if (cls('base', 'valid') and cls('renamed', 'valid')) or (cls('base', 'refuted') and cls('renamed', 'refuted')):
                covered += 1
    if record:
        for v in runs.values():
            for c, r in v:
                ctx.count('outcome.' + r.outcome.split(':')[0])
        ctx.count('evaluations', sum(len(v) for v in runs.values()))
        ctx.count('probe.laws_with_verdicts_on_both_sides', covered)
        if covered:
            ctx.nontrivial((logic, barg))
        ctx.distinct('fragments', (logic, proofwl.fragment_of(*fam['base'])))
        ctx.sample(dict(logic=logic, base=barg, reflexive=lexgen.argstr(*fam['reflexive']) if 'reflexive' in fam else None,
            extended=lexgen.argstr(*fam['extended']) if 'extended' in fam else None,
            renamed=lexgen.argstr(*fam['renamed']) if 'renamed' in fam else None,
            outcomes={k: [r.outcome for c, r in v] for k, v in runs.items()}))
    if viol is not None:
        clause, key, msg, cfgs = viol
        spec = dict(logic=logic, clause=clause, family={k: [[lexgen.to_json(p) for p in v[0]], lexgen.to_json(v[1])] for k, v in fam.items()},
                    argstrs={k: lexgen.argstr(*v) for k, v in fam.items()})
        ctx.violation('%s/%s' % (ID, clause), '%s|%s' % (clause, key), msg, spec)

def explain_refuted_valid(ctx, c, r):
    "A refutation of an argument that is valid by law."
    from .. import diagnose
    from . import c02
    sem = refsem.get(c.logic)
    for b in r.tab.open:
        if proofsim.is_flagged(b) or b.model is None:
            continue
        v = c02.branch_verdict(r.tab, b, r.tab.argument)
        if v is not None:
            return 'bad-refutation|%s|%s' % (c02.scope(c.logic, v[1]), v[1]), v[2]
    if all(refsem.is_propositional(s) for s in c.prems + [c.conc]):
        b = next(b for b in r.tab.open if not proofsim.is_flagged(b))
        cause = diagnose.incomplete(sem, r.tab, b)
        return 'incomplete|' + (cause if cause.startswith('rule=') else '%s|%s' % (proofcheck.base_logic(c.logic), cause)), cause
    return 'unexplained|%s|%s' % (c.logic, proofcheck.shape(c.prems, c.conc)), 'the branch model passes the library\'s own countermodel test'

def run(ctx):
    logic, fam = make_family(ctx)
    judge_family(ctx, logic, fam)

def replay(ctx, spec):
    fam = {k: ([lexgen.from_json(p) for p in v[0]], lexgen.from_json(v[1])) for k, v in spec['family'].items()}
    judge_family(ctx, spec['logic'], fam, record=False)
