"""Command line: python -m sim check <ID> [--tier quick|thorough] | replay <file> | selftest [ids] | setup"""
from __future__ import annotations
import argparse
import os
import sys

from . import seeds

def main(argv):
    ap = argparse.ArgumentParser(prog='sim')
    sub = ap.add_subparsers(dest='cmd', required=True)
    c = sub.add_parser('check')
    c.add_argument('id')
    c.add_argument('--tier', default=os.environ.get('VERIF_TIER') or 'quick', choices=('quick', 'thorough'))
    c.add_argument('--nomin', action='store_true')
    r = sub.add_parser('replay')
    r.add_argument('path')
    s = sub.add_parser('selftest')
    s.add_argument('ids', nargs='*')
    s.add_argument('--n', type=int, default=24)
    sub.add_parser('setup')
    a = ap.parse_args(argv)
    try:
        seed = int(os.environ.get('VERIF_SEED', '') or seeds.DEFAULT_SEED)
    except ValueError:
        seed = seeds.tag(os.environ['VERIF_SEED'])
    from . import kernel
    if os.environ.get('VERIF_DRIVER_ENV') != '1':
        # re-exec once with the simulation environment (guard on, fixed hash seed, /repo on the path)
        env = kernel.worker_env(0)
        env['VERIF_DRIVER_ENV'] = '1'
        os.execve(sys.executable, [sys.executable, '-B', '-m', 'sim'] + list(argv), env)
    if a.cmd == 'check':
        return kernel.check_main(a.id.upper(), a.tier, seed, nomin=a.nomin)
    if a.cmd == 'replay':
        return kernel.replay_main(a.path)
    if a.cmd == 'selftest':
        from . import selftest
        return selftest.main(a.ids, seed, a.n)
    if a.cmd == 'setup':
        from . import selftest
        return selftest.setup(seed)
    return 2
