"""Simulation kernel: run contexts, worker loop, driver, evidence, replay files.

A *check* is a module in sim.checks exposing

    ID, LEVEL, RULE, ASSUMPTIONS, SALTS (lexical-hash salts it shards over)
    plan(tier) -> dict(runs=<fixed number of runs>, timeout=<wall guard seconds>)
    run(ctx)           one simulated run, a pure function of (ctx.seed, ctx.index, code)
    replay(ctx, spec)  re-execute the recorded spec of a violation
    minimise(ctx, v)   optional: shrink a violation's spec, return the smaller Violation
    post(records, emit) optional: family oracles over the records of the whole batch

Everything random comes from ctx.rng(purpose); nothing reads a clock except the driver,
which only uses it for the wall guard and the evidence's wall_s.
"""
from __future__ import annotations

import hashlib
import importlib
import json
import os
import subprocess
import sys
import time
import traceback
from collections import Counter

from . import seeds

VERIF = os.path.dirname(os.path.dirname(os.path.abspath(__file__)))
REPO = os.environ.get('VERIF_REPO', '/repo')
WORK = os.path.join(VERIF, '.work')
REPLAYS = os.path.join(VERIF, 'replays')
EVIDENCE = os.path.join(VERIF, 'evidence')
KNOWN_FILE = os.path.join(VERIF, 'known_findings.json')
GUARD = 'PYTABLEAUX_VERIF'

MAX_SAMPLES = 6

def canon(obj) -> str:
    return json.dumps(obj, sort_keys=True, separators=(',', ':'), default=str)

def digest_of(obj) -> str:
    return hashlib.sha256(canon(obj).encode()).hexdigest()[:20]

def key8(obj) -> str:
    if not isinstance(obj, str):
        obj = canon(obj)
    return hashlib.blake2b(obj.encode(), digest_size=6).hexdigest()

class Violation:
    __slots__ = ('clause', 'key', 'message', 'spec', 'digest', 'index', 'salt')

    def __init__(self, clause, key, message, spec, digest=None, index=None, salt=None):
        self.clause = clause
        self.key = key
        self.message = message
        self.spec = spec
        self.digest = digest
        self.index = index
        self.salt = salt

    def asdict(self):
        return {k: getattr(self, k) for k in self.__slots__}

    @classmethod
    def fromdict(cls, d):
        return cls(**{k: d.get(k) for k in cls.__slots__})

class Ctx:
    """Everything one simulated run may use that is not the code under test."""

    def __init__(self, check_id, seed, tier, index, salt, acc=None):
        self.check_id = check_id
        self.seed = seed
        self.tier = tier
        self.index = index
        self.salt = salt
        self.run_seed = seeds.derive(seed, check_id, index)
        self.acc = acc if acc is not None else Acc()
        self.events = []
        self.violations = []
        self.records = []

    def rng(self, purpose: str):
        return seeds.rng(self.run_seed, purpose)

    def sub(self, purpose: str) -> int:
        return seeds.derive(self.run_seed, purpose)

    # -- logging (never draws randomness, never reads a clock)
    def log(self, *event):
        self.events.append(event)

    def digest(self):
        return digest_of(self.events)

    # -- coverage accounting
    def count(self, name, n=1):
        self.acc.counters[name] += n

    def nontrivial(self, key):
        self.acc.distinct.add(key8(key))

    def distinct(self, family, key):
        "Distinct-count under a named measure (reported as coverage.distinct_<family>)."
        self.acc.families.setdefault(family, set()).add(key8(key))

    def sample(self, obj, bucket='samples'):
        lst = self.acc.samples.setdefault(bucket, [])
        if len(lst) < MAX_SAMPLES:
            lst.append(obj)

    def record(self, rec):
        self.records.append(rec)

    def violation(self, clause, key, message, spec, digest=None):
        v = Violation(clause, key, message, spec,
            digest if digest is not None else self.digest(), self.index, self.salt)
        self.violations.append(v)
        return v

class Acc:
    "Per-worker accumulator, merged by the driver."

    def __init__(self):
        self.counters = Counter()
        self.distinct = set()
        self.families = {}
        self.samples = {}
        self.runs = 0

    def dump(self):
        return dict(
            counters=dict(self.counters),
            distinct=sorted(self.distinct),
            families={k: sorted(v) for k, v in self.families.items()},
            samples=self.samples,
            runs=self.runs)

    def merge(self, d):
        self.counters.update(d['counters'])
        self.distinct.update(d['distinct'])
        for k, v in d['families'].items():
            self.families.setdefault(k, set()).update(v)
        for k, v in d['samples'].items():
            lst = self.samples.setdefault(k, [])
            for s in v:
                if len(lst) < MAX_SAMPLES:
                    lst.append(s)
        self.runs += d['runs']

# ---------------------------------------------------------------------------
# known findings

class Known:
    def __init__(self, path=KNOWN_FILE):
        try:
            with open(path) as f:
                data = json.load(f)
        except FileNotFoundError:
            data = dict(findings=[])
        self.entries = [e for e in data.get('findings', []) if e.get('status') == 'known']
        self.fixed = [e for e in data.get('findings', []) if e.get('status') == 'fixed']

    def match(self, prop, key):
        for e in self.entries:
            if e['property'] != prop:
                continue
            k = e['key']
            if k == key or (k.endswith('*') and key.startswith(k[:-1])):
                return e
        return None

# ---------------------------------------------------------------------------
# process-global state a run could inherit from its predecessor

NEEDS_LOGICS = [True]

def reset_process_state(order_seed=0, overrides=None, cache_size=1000):
    from pytableaux import _verif
    if not _verif.ENABLED:
        raise RuntimeError('worker started without %s=1' % GUARD)
    _verif.reset(order_seed, overrides)
    if NEEDS_LOGICS[0]:
        warm_process()
    from pytableaux.lang import LexicalAbcMeta
    LexicalAbcMeta.__call__._cache.__init__(maxlen=cache_size)

_warm = [False]
def warm_process():
    """Load every logic module before the first run: importing one builds example tableaux
    (rule attribute induction) and would otherwise consume hash-provider state inside whichever
    run happens to use the logic first in this process."""
    if _warm[0]:
        return
    from pytableaux.logics import registry
    for modname in sorted(registry.all()):
        registry(modname.rsplit('.', 1)[1])
    _warm[0] = True

def load_check(check_id):
    return importlib.import_module('sim.checks.' + check_id.lower())

# ---------------------------------------------------------------------------
# worker

def worker_main(argv):
    import faulthandler
    job = json.loads(argv[0])
    mode = job['mode']
    check_id = job['check']
    mod = load_check(check_id)
    NEEDS_LOGICS[0] = getattr(mod, 'NEEDS_LOGICS', True)
    out = job['out']
    faulthandler.enable()
    faulthandler.dump_traceback_later(job.get('timeout', 600), exit=True)
    known = Known()
    acc = Acc()
    result = dict(job=job, violations=[], known={}, records=[], errors=[])
    seen_keys = set()

    def handle(ctx):
        for v in ctx.violations:
            e = known.match(check_id, v.key)
            if e is not None:
                k = result['known'].setdefault(e['key'], dict(count=0, what=e.get('what', ''), example=v.message))
                k['count'] += 1
                continue
            if v.key in seen_keys:
                acc.counters['violations_duplicate_key'] += 1
                continue
            seen_keys.add(v.key)
            if mode == 'run' and hasattr(mod, 'minimise') and not job.get('nomin'):
                try:
                    v2 = mod.minimise(ctx, v)
                    if v2 is not None:
                        v2.index, v2.salt = v.index, v.salt
                        v = v2
                except Exception:
                    result['errors'].append('minimise: ' + traceback.format_exc())
            result['violations'].append(v.asdict())
        result['records'].extend(ctx.records)

    try:
        if mode == 'run':
            n = job['runs']
            nsalts, salt, nshards, shard = job['nsalts'], job['salt'], job['nshards'], job['shard']
            for i in range(n):
                if i % nsalts != salt or (i // nsalts) % nshards != shard:
                    continue
                ctx = Ctx(check_id, job['seed'], job['tier'], i, salt, acc)
                reset_process_state()
                mod.run(ctx)
                acc.runs += 1
                handle(ctx)
        elif mode == 'replay':
            ctx = Ctx(check_id, job['seed'], job['tier'], job['index'], job['salt'], acc)
            reset_process_state()
            mod.replay(ctx, job['spec'])
            acc.runs += 1
            handle(ctx)
        elif mode == 'digest':
            # determinism self-test: digests of the given run indices
            digs = {}
            for i in job['indices']:
                ctx = Ctx(check_id, job['seed'], job['tier'], i, job['salt'], acc)
                reset_process_state()
                mod.run(ctx)
                digs[str(i)] = [ctx.digest(), [v.key for v in ctx.violations]]
            result['digests'] = digs
        else:
            raise ValueError(mode)
    except BaseException as e:
        if isinstance(e, (KeyboardInterrupt, SystemExit)):
            raise
        result['errors'].append(traceback.format_exc() + '\n' + str(e))
    result['acc'] = acc.dump()
    tmp = out + '.tmp'
    with open(tmp, 'w') as f:
        json.dump(result, f, default=str)
    os.replace(tmp, out)
    return 0

# ---------------------------------------------------------------------------
# driver

def worker_env(salt, hashseed='0'):
    env = dict(os.environ)
    env[GUARD] = '1'
    env['PYTABLEAUX_VERIF_LEXSALT'] = str(salt)
    env['PYTABLEAUX_VERIF_ORDER'] = '0'
    env['PYTHONHASHSEED'] = str(hashseed)
    env['PYTHONDONTWRITEBYTECODE'] = '1'
    env['PYTHONPATH'] = REPO + os.pathsep + VERIF
    env.pop('ITEM_CACHE_SIZE', None)
    return env

def spawn(job, hashseed='0'):
    return subprocess.Popen(
        [sys.executable, '-B', '-m', 'sim.worker', json.dumps(job)],
        env=worker_env(job['salt'], hashseed), cwd=VERIF,
        stdout=subprocess.PIPE, stderr=subprocess.STDOUT)

def run_jobs(jobs, parallel, wall):
    """Run worker jobs, at most `parallel` at a time. Returns (results, errors)."""
    pending = list(jobs)
    running = []
    results, errors = [], []
    t0 = time.time()
    while pending or running:
        while pending and len(running) < parallel:
            job = pending.pop(0)
            running.append((job, spawn(job, job.get('hashseed', '0'))))
        time.sleep(0.05)
        still = []
        for job, p in running:
            rc = p.poll()
            if rc is None:
                if time.time() - t0 > wall:
                    p.kill()
                    p.wait()
                    errors.append('worker killed by wall guard (%ss): %s' % (wall, canon({k: job[k] for k in ('check', 'salt', 'shard') if k in job})))
                else:
                    still.append((job, p))
                continue
            outtxt = p.stdout.read().decode(errors='replace')
            outtxt = '\n'.join(l for l in outtxt.splitlines() if 'WARNING' not in l)
            if rc != 0 or not os.path.exists(job['out']):
                errors.append('worker exit %s: %s' % (rc, outtxt[-3000:]))
                continue
            with open(job['out']) as f:
                res = json.load(f)
            os.unlink(job['out'])
            errors.extend(res['errors'])
            results.append(res)
        running = still
    return results, errors

def njobs():
    try:
        return max(1, int(os.environ.get('VERIF_JOBS', '') or min(16, os.cpu_count() or 1)))
    except ValueError:
        return 16

def workdir(check_id):
    d = os.path.join(WORK, '%s-%d' % (check_id, os.getpid()))
    os.makedirs(d, exist_ok=True)
    return d

def check_main(check_id, tier, seed, nomin=False):
    t0 = time.time()
    mod = load_check(check_id)
    plan = mod.plan(tier)
    runs = int(os.environ.get('VERIF_RUNS', '') or plan['runs'])
    timeout = plan.get('timeout', 900)
    if runs > plan['runs']:
        timeout = int(timeout * runs / plan['runs']) + 60      # dev scans with VERIF_RUNS
    nsalts = mod.salts(tier) if hasattr(mod, 'salts') else getattr(mod, 'SALTS', 1)
    J = njobs()
    nshards = max(1, J // nsalts)
    wd = workdir(check_id)
    jobs = []
    for salt in range(nsalts):
        for shard in range(nshards):
            jobs.append(dict(mode='run', check=check_id, tier=tier, seed=seed, runs=runs,
                nsalts=nsalts, salt=salt, nshards=nshards, shard=shard, timeout=timeout,
                nomin=nomin, out=os.path.join(wd, 'w%d_%d.json' % (salt, shard))))
    print('[sim] check=%s tier=%s VERIF_SEED=%d runs=%d workers=%d salts=%d' % (
        check_id, tier, seed, runs, len(jobs), nsalts), flush=True)
    results, errors = run_jobs(jobs, J, timeout + 30)
    acc = Acc()
    violations, known, records = [], {}, []
    for res in results:
        acc.merge(res['acc'])
        violations.extend(Violation.fromdict(v) for v in res['violations'])
        for k, e in res['known'].items():
            kk = known.setdefault(k, dict(count=0, what=e['what'], example=e['example']))
            kk['count'] += e['count']
        records.extend(res['records'])
    kn = Known()
    if hasattr(mod, 'post') and not errors:
        records.sort(key=lambda r: (r.get('i', 0), canon(r)))
        def emit(clause, key, message, spec, index=None, salt=0):
            e = kn.match(check_id, key)
            if e is not None:
                kk = known.setdefault(e['key'], dict(count=0, what=e.get('what', ''), example=message))
                kk['count'] += 1
                return
            violations.append(Violation(clause, key, message, spec, None, index, salt))
        mod.post(records, emit, acc)
    # one replay per key, lowest run index first
    violations.sort(key=lambda v: (v.key, v.index if v.index is not None else -1))
    uniq = {}
    for v in violations:
        uniq.setdefault(v.key, v)
    os.makedirs(REPLAYS, exist_ok=True)
    lines = []
    for key, v in sorted(uniq.items()):
        path = os.path.join(REPLAYS, '%s-%d-%s-%s.json' % (check_id, seed, v.index, key8(key)))
        with open(path, 'w') as f:
            json.dump(dict(property=check_id, clause=v.clause, key=v.key, message=v.message,
                seed=seed, tier=tier, index=v.index, knobs=dict(lex_salt=v.salt, hashseed=0),
                spec=v.spec, digest=v.digest), f, indent=1, default=str)
        lines.append('VIOLATION property=%s replay=%s' % (check_id, path))
        print('[sim] violation clause=%s key=%s :: %s' % (v.clause, v.key, v.message), flush=True)
    wall = time.time() - t0
    write_evidence(mod, check_id, tier, seed, acc, wall, len(uniq), known, errors, runs)
    for k, e in sorted(known.items()):
        print('KNOWN-FINDING: property=%s %s (%d hits) %s' % (check_id, k, e['count'], e['what']), flush=True)
    try:
        os.rmdir(wd)
    except OSError:
        pass
    if errors:
        for e in errors[:5]:
            print('[sim] HARNESS ERROR: ' + e, flush=True)
        return 2
    for l in lines:
        print(l, flush=True)
    print('[sim] %s %s: %d runs, %d distinct non-trivial, %d violation key(s), %d known-finding key(s), %.1fs' % (
        check_id, tier, acc.runs, len(acc.distinct), len(uniq), len(known), wall), flush=True)
    return 1 if uniq else 0

def write_evidence(mod, check_id, tier, seed, acc, wall, nviol, known, errors, planned):
    os.makedirs(EVIDENCE, exist_ok=True)
    c = dict(acc.counters)
    evaluations = int(c.pop('evaluations', 0)) or acc.runs
    samples = acc.samples.get('samples', [])
    cov = dict(
        evaluations=evaluations,
        distinct_nontrivial=len(acc.distinct),
        rule=mod.RULE,
        samples=samples,
        runs=acc.runs,
        runs_planned=planned,
        runs_per_hour=int(acc.runs * 3600 / max(wall, 1e-3)),
        simulated_ms_covered=int(c.pop('simulated_ms', 0)),
        faults_fired={k[6:]: v for k, v in sorted(c.items()) if k.startswith('fault.')},
        probes={k[6:]: v for k, v in sorted(c.items()) if k.startswith('probe.')},
        counters={k: v for k, v in sorted(c.items()) if not k.startswith(('fault.', 'probe.'))},
        distinct_by_measure={k: len(v) for k, v in sorted(acc.families.items())},
        components=getattr(mod, 'COMPONENTS', dict(
            real='all pytableaux code imported from the working tree of /repo',
            stub='wall clock (virtual), hash-order provider (seeded)')),
        known_findings_matched={k: e['count'] for k, e in sorted(known.items())},
        harness_errors=len(errors))
    for k, v in acc.samples.items():
        if k != 'samples':
            cov['samples_' + k] = v
    ev = dict(
        property_id=check_id, tier=tier, seed=seed, level=mod.LEVEL, coverage=cov,
        assumptions=list(getattr(mod, 'ASSUMPTIONS', [])), wall_s=round(wall, 2), violations=nviol)
    with open(os.path.join(EVIDENCE, check_id + '.json'), 'w') as f:
        json.dump(ev, f, indent=1, default=str)

def replay_main(path):
    with open(path) as f:
        rp = json.load(f)
    check_id = rp['property']
    wd = workdir(check_id + '-replay')
    salts = [rp['knobs'].get('lex_salt') or 0]
    if isinstance(rp['spec'], dict) and 'multi' in rp['spec']:
        salts = sorted({m.get('salt', 0) for m in rp['spec']['multi']})
    jobs = [dict(mode='replay', check=check_id, tier=rp.get('tier', 'quick'), seed=rp['seed'],
        index=rp.get('index') or 0, salt=s, spec=rp['spec'],
        timeout=600, out=os.path.join(wd, 'replay%d.json' % s)) for s in salts]
    results, errors = run_jobs(jobs, len(jobs), 630)
    try:
        os.rmdir(wd)
    except OSError:
        pass
    if errors:
        for e in errors:
            print('[sim] HARNESS ERROR: ' + e)
        return 2
    vs, kn, records = [], [], []
    for res in results:
        vs.extend(Violation.fromdict(v) for v in res['violations'])
        kn.extend(res['known'])
        records.extend(res['records'])
    mod = load_check(check_id)
    if hasattr(mod, 'post') and records:
        known = Known()
        def emit(clause, key, message, spec, index=None, salt=0):
            if known.match(check_id, key) is not None:
                kn.append(key)
            else:
                vs.append(Violation(clause, key, message, spec, None, index, salt))
        mod.post(records, emit, Acc())
    same = [v for v in vs if v.key == rp['key']]
    if same:
        v = same[0]
        dig = 'same digest' if (rp.get('digest') in (None, v.digest)) else 'digest differs (%s vs %s)' % (rp.get('digest'), v.digest)
        print('[sim] reproduced: clause=%s key=%s (%s) :: %s' % (v.clause, v.key, dig, v.message))
        print('VIOLATION property=%s replay=%s' % (check_id, path))
        return 1
    if rp['key'] in kn or any(Known().match(check_id, rp['key']) for _ in [0]) and kn:
        print('[sim] reproduced as KNOWN-FINDING: property=%s %s' % (check_id, rp['key']))
        return 0
    if vs:
        print('[sim] replay gave a different violation: ' + '; '.join(v.key for v in vs))
        print('VIOLATION property=%s replay=%s' % (check_id, path))
        return 1
    print('[sim] replay did not reproduce a violation (property holds on this replay)')
    return 0

# ---------------------------------------------------------------------------
# generic delta debugging

def ddmin(items, test, budget=400):
    """Smallest sublist (1-minimal up to budget) for which test(sublist) is true."""
    items = list(items)
    n = 2
    calls = 0
    while len(items) >= 2 and calls < budget:
        chunk = max(1, len(items) // n)
        subsets = [items[i:i + chunk] for i in range(0, len(items), chunk)]
        reduced = False
        for i in range(len(subsets)):
            comp = [x for j, s in enumerate(subsets) if j != i for x in s]
            calls += 1
            if comp and test(comp):
                items = comp
                n = max(n - 1, 2)
                reduced = True
                break
            if calls >= budget:
                break
        if not reduced:
            if n >= len(items):
                break
            n = min(len(items), n * 2)
    # final pass: drop single elements until 1-minimal
    i = 0
    while i < len(items) and len(items) > 1 and calls < budget:
        comp = items[:i] + items[i + 1:]
        calls += 1
        if test(comp):
            items = comp
        else:
            i += 1
    return items
