"""parsesim: histories of parses (valid, fault-mutated, random, short) on long-lived parsers."""
from __future__ import annotations

import sys

from pytableaux.errors import ParseError
from pytableaux.lang import LexWriter, Parser, Predicate, Predicates

from . import lexgen
from .ref import refsem

ALPHA = {
    'polish': 'TNKACEUBMLVSJIxyzvmnosFGHOabcde0123456789 ',
    'standard': '*~&V><$%PNXL!=xyzvabcdFGHOABCDE()0123456789 ',
}
FOREIGN = '#@?.é∀\t\n_-+[]{}"\'\\/|:;,'
EVENT_BUDGET = 1500000

_writers = {}
def writer(notation):
    if notation not in _writers:
        _writers[notation] = LexWriter(notation, 'text', 'ascii')
    return _writers[notation]

def render(notation, ast):
    return writer(notation)(lexgen.build(ast))

def gen_config(rng):
    notation = rng.choice(('polish', 'standard'))
    cfg = dict(notation=notation, auto_preds=rng.random() < 0.7)
    if notation == 'standard':
        cfg['drop_parens'] = rng.random() < 0.7
    store = rng.choice(('empty', 'declared', 'declared', 'frozen'))
    cfg['store'] = store
    cfg['declared'] = []
    if store != 'empty':
        seen = set()
        for _ in range(rng.randrange(1, 4)):
            i, s = rng.randrange(4), rng.choice((0, 0, 1))
            if (i, s) in seen:
                continue
            seen.add((i, s))
            cfg['declared'].append([i, s, rng.choice((1, 2, 2, 3))])
    return cfg

def make_parser(cfg, declared=None):
    decl = cfg['declared'] if declared is None else declared
    preds = Predicates([tuple(d) for d in decl])
    if cfg['store'] == 'frozen':
        preds = preds.frozen()
    opts = dict(auto_preds=cfg['auto_preds'])
    if 'drop_parens' in cfg:
        opts['drop_parens'] = cfg['drop_parens']
    return Parser(cfg['notation'], preds, **opts)

def declarations(parser):
    return [[p.index, p.subscript, p.arity] for p in parser.predicates if not p.is_system]

def mutate(rng, text, alpha):
    if not text:
        return rng.choice(alpha)
    k = rng.choice(('truncate', 'truncate', 'flip', 'flip', 'insert', 'foreign', 'delete', 'dupspan', 'paren', 'swapvar', 'pad', 'space', 'digits'))
    i = rng.randrange(len(text))
    if k == 'truncate':
        return text[:i]
    if k == 'flip':
        return text[:i] + rng.choice(alpha) + text[i + 1:]
    if k == 'insert':
        return text[:i] + rng.choice(alpha) + text[i:]
    if k == 'foreign':
        return text[:i] + rng.choice(FOREIGN) + text[i:]
    if k == 'delete':
        return text[:i] + text[i + 1:]
    if k == 'dupspan':
        j = min(len(text), i + rng.randrange(1, 5))
        return text[:j] + text[i:j] + text[j:]
    if k == 'paren':
        return text[:i] + rng.choice('()') + text[i:]
    if k == 'swapvar':
        vs = [p for p, c in enumerate(text) if c in 'xyzv']
        if not vs:
            return text + 'x'
        p = rng.choice(vs)
        return text[:p] + rng.choice('xyzv') + text[p + 1:]
    if k == 'space':
        return text[:i] + ' ' * rng.randrange(1, 3) + text[i:]
    if k == 'digits':
        return text[:i + 1] + ''.join(rng.choice('0123456789') for _ in range(rng.choice((1, 2, 3, 12)))) + text[i + 1:]
    return ' ' * rng.randrange(1, 3) + text + ' ' * rng.randrange(0, 3)

DEEP = dict(
    polish=dict(unary='NTML', binpre='KACU', atom='a', quant=('Vx', 'Sy', 'Vz'), pred={'Vx': 'Fx', 'Sy': 'Gy', 'Vz': 'Fz'},
                follow=('Fx', 'Gy', 'VxFx', 'KVyGyGx', 'Ixx', 'SyGy', 'Fz')),
    standard=dict(unary='~*PN', binpre='', atom='A', quant=('Lx', 'Xy', 'Lz'), pred={'Lx': 'Fx', 'Xy': 'Gy', 'Lz': 'Fz'},
                  follow=('Fx', 'Gy', 'LxFx', 'x=x', 'LyGy & Gx', 'XyGy', 'Fz')))

def deep_input(rng, notation):
    "Very deep nesting / very long digit runs, optionally inside a quantifier scope."
    d = DEEP[notation]
    # depths: coarse, and a fine sweep around the interpreter's recursion limit (where an error
    # can surface after the last character has been consumed)
    k = rng.choice((40, 140, 300, 600)) if rng.random() < 0.4 else rng.randrange(60, 260)
    q = rng.choice(('', '') + d['quant'])
    tail = d['pred'][q] if q and rng.random() < 0.8 else d['atom']
    if not q and rng.random() < 0.5:
        tail = d['atom'] + str(rng.randrange(1000, 99999))      # a letter nobody has constructed before
    r = rng.random()
    if r < 0.5:
        body = rng.choice(d['unary']) * k + tail
    elif r < 0.7 and d['binpre']:
        op = rng.choice(d['binpre'])
        body = (op + d['atom']) * k + tail
    elif r < 0.8 and notation == 'standard':
        body = '(' * k + tail + (' & A)' * rng.choice((0, k)))
    else:
        digits = '1' * rng.choice((30, 400, 4400))
        body = (tail[0] + digits + tail[1:]) if len(tail) > 1 else tail + digits + rng.choice(('', tail))
    return q + body

def subscript_vars(rng, ast):
    "Give the bound variables of a sentence (some) non-zero subscripts, consistently."
    m = {}
    def sub(v):
        if v not in m:
            m[v] = (v[0], v[1], rng.choice((0, 1, 2, 12)))
        return m[v]
    def f(s):
        k = s[0]
        if k == 'A': return s
        if k == 'P': return ('P', s[1], tuple(sub(p) if p[0] == 'v' else p for p in s[2]))
        if k == 'O': return ('O', s[1], tuple(f(x) for x in s[2]))
        v = sub(('v',) + tuple(s[2]))
        return ('Q', s[1], (v[1], v[2]), f(s[3]))
    return f(ast)

QV = dict(polish=('V', 'S'), standard=('L', 'X'))

def composite(rng, notation, earlier):
    """An input built around an earlier input of the same history: the earlier text inside a new
    quantifier that binds one of its own variables (or a new one), or joined to itself."""
    e = earlier.strip()
    # variables bound inside the earlier text (the character after a quantifier symbol)
    vs = [e[i + 1] for i, c in enumerate(e[:-1]) if c in QV[notation] and e[i + 1] in 'xyzv'] or [c for c in e if c in 'xyzv']
    v = rng.choice(vs) if vs and rng.random() < 0.75 else rng.choice('xyzv')
    q = rng.choice(QV[notation])
    # a variable-free sentence for sibling scopes (a vacuous quantifier next to a scope that uses the variable)
    g = rng.choice(('a', 'Na', 'b2') if notation == 'polish' else ('A', '~A', 'B2'))
    if notation == 'polish':
        return rng.choice(('%s%sK%sF%s' % (q, v, e, v), '%s%sAF%s%s' % (q, v, v, e), 'K%s%s' % (e, e), 'N%s' % e,
                           'K%s%s%s%s' % (e, q, v, g), 'A%s%s%s%s' % (q, v, g, e), 'K%s%s%sF%s' % (e, q, v, v)))
    return rng.choice(('%s%s(%s & F%s)' % (q, v, e, v), '%s%s(F%s V %s)' % (q, v, v, e), '%s%s((%s) V F%s)' % (q, v, e, v),
                       '(%s) & (%s)' % (e, e), '~%s' % e,
                       '(%s) & %s%s%s' % (e, q, v, g), '%s%s%s V (%s)' % (q, v, g, e), '(%s) & %s%sF%s' % (e, q, v, v)))

def gen_inputs(rng, cfg, n):
    notation = cfg['notation']
    alpha = ALPHA[notation]
    out = []
    pending = []
    for _ in range(n):
        if pending:
            # (prefix sweeps come on top of the history's n inputs, they do not displace them)
            out.extend(pending)
            pending = []
        r = rng.random()
        short = [x for x in out if 3 <= len(x) <= 60]
        if short and rng.random() < 0.07:
            # prefer earlier inputs that bind a variable and have a binary connective
            qs, bs = QV[notation], ('KACUEB' if notation == 'polish' else '&V>$<%')
            rich = [x for x in short if any(c in x for c in qs) and any(c in x for c in bs)]
            out.append(composite(rng, notation, rng.choice(rich if rich and rng.random() < 0.7 else short))[:200])
            continue
        if out and len(out[-1]) > 200 and rng.random() < 0.8:
            # right after a very long input: short inputs that use its variables
            out.append(rng.choice(DEEP[notation]['follow']))
            continue
        if r < 0.012:
            out.append(deep_input(rng, notation))
            continue
        if r < 0.35 or r < 0.75:
            prof = lexgen.Profile(rng, modal=rng.random() < 0.4, quant=rng.random() < 0.6, preds=rng.random() < 0.8,
                                  identity=rng.random() < 0.3, depth=rng.choice((0, 1, 2, 3)))
            try:
                ast = lexgen.gen_sentence(rng, prof)
                if rng.random() < 0.3:
                    ast = subscript_vars(rng, ast)
                text = render(notation, ast)
            except Exception:
                text = 'a'
            if r >= 0.35:
                text = mutate(rng, text, alpha)
                if rng.random() < 0.2:
                    text = mutate(rng, text, alpha)
            if len(text) <= 20 and rng.random() < 0.1:
                # end of input at every instant: all proper prefixes, longest first
                pending.extend(text[:k] for k in range(len(text) - 1, 0, -1))
        elif r < 0.9:
            text = ''.join(rng.choice(alpha if rng.random() < 0.93 else FOREIGN) for _ in range(rng.choice((1, 2, 3, 4, 6, 10, 20))))
        else:
            text = ''.join(rng.choice(alpha) for _ in range(rng.choice((0, 1, 2))))
        out.append(text[:200])      # (deep_input() strings above are exempt from this cap)
    out.extend(pending)
    return out

class Budget(Exception):
    pass

def traced_parse(parser, text):
    """Parse under a deterministic event budget (calls everywhere, lines inside parsing.py)."""
    count = [0]
    def local(frame, event, arg):
        count[0] += 1
        if count[0] > EVENT_BUDGET:
            raise Budget()
        return local
    deep = len(text) > 120       # very long inputs: call events only (line tracing at recursion depth ~1000 is fragile)
    def tracer(frame, event, arg):
        count[0] += 1
        if count[0] > EVENT_BUDGET:
            raise Budget()
        if not deep and frame.f_code.co_filename.endswith(('parsing.py', 'collect.py')):
            return local
        return None
    old = sys.gettrace()
    sys.settrace(tracer)
    try:
        return ('ok', parser(text))
    except Budget:
        return ('budget', None)
    except RecursionError as e:
        return ('exc', e)
    except Exception as e:
        return ('exc', e)
    finally:
        sys.settrace(old)

def wellformed(sentence):
    "None or a description of what is wrong with a returned sentence."
    try:
        ast = lexgen.to_ast(sentence)
    except Exception as e:
        return 'not a well-typed sentence (%s)' % type(e).__name__
    def walk(s, bound):
        k = s[0]
        if k == 'A':
            return None
        if k == 'P':
            if len(s[2]) != s[1][2]:
                return 'predicate of arity %d applied to %d parameters' % (s[1][2], len(s[2]))
            for p in s[2]:
                if p[0] == 'v' and p not in bound:
                    return 'free variable %s' % (lexgen.VARS[p[1]] + (str(p[2]) if p[2] else ''))
            return None
        if k == 'O':
            for x in s[2]:
                r = walk(x, bound)
                if r: return r
            return None
        v = ('v',) + tuple(s[2])
        if v in bound:
            return 'variable re-bound by a nested quantifier'
        if v not in refsem._free_vars(s[3]):
            return 'vacuous quantifier'
        return walk(s[3], bound + (v,))
    return walk(ast, ())

def nesting(text):
    "Upper bound of the nesting depth of an input: operator / quantifier / parenthesis characters."
    return sum(1 for c in text if c in 'NTMLKACEUBVS(~*PX!&><$%')

def near_recursion_limit(text, a, b):
    """One side accepted, the other refused with ParseError, on an input nested deeply enough for
    the interpreter's recursion limit to decide (the parsers are recursive)."""
    return nesting(text) >= 80 and {a[:2], b[:2]} == {'S:', 'E:'} and 'ParseError' in (a + b)

def outcome_repr(kind, val):
    if kind == 'ok':
        return 'S:' + repr(lexgen.to_ast(val))
    if kind == 'budget':
        return 'budget'
    return 'E:' + ('ParseError' if isinstance(val, ParseError) else type(val).__name__)

def execute(spec, stats=None):
    """Returns None or (clause, site, message, index)."""
    cfg = spec['cfg']
    parser = make_parser(cfg)
    for i, text in enumerate(spec['inputs']):
        before = declarations(parser)
        kind, val = traced_parse(parser, text)
        if stats is not None:
            stats['parses'] += 1
            stats['accepted' if kind == 'ok' else 'rejected'] += 1
        if kind == 'budget':
            return ('non-termination', cfg['notation'], 'parsing %r did not finish within %d trace events' % (text, EVENT_BUDGET), i)
        if kind == 'exc' and not isinstance(val, ParseError):
            import traceback
            tb = traceback.extract_tb(val.__traceback__)
            site = '?'
            for fr in tb:
                if '/pytableaux/' in fr.filename:
                    site = '%s:%s' % (fr.filename.rsplit('/', 1)[1].replace('.py', ''), fr.name)
            return ('wrong-exception', '%s|%s@%s' % (cfg['notation'], type(val).__name__, site),
                    'parsing %r raised %s: %s' % (text, type(val).__name__, val), i)
        if kind == 'ok':
            bad = wellformed(val)
            if bad:
                return ('ill-formed', '%s|%s' % (cfg['notation'], bad.split(' of ')[0].split(' %')[0][:40]),
                        'parsing %r returned %s: %s' % (text, lexgen.polish(lexgen.to_ast(val)) if 'well-typed' not in bad else val, bad), i)
        # history independence: a fresh parser with the declarations as they were before this call
        twin = make_parser(cfg, declared=before)
        tk, tv = traced_parse(twin, text)
        a, b = outcome_repr(kind, val), outcome_repr(tk, tv)
        if a != b:
            if near_recursion_limit(text, a, b):
                return ('history-dependent', cfg['notation'] + '|recursion-limit', 'parsing %r (nesting depth %d) after %d earlier parses gives %s, a fresh parser with the same declarations gives %s' % (
                    text[:40] + '…', nesting(text), i, a[:40], b[:40]), i)
            return ('history-dependent', cfg['notation'], 'parsing %r after %d earlier parses gives %s, a fresh parser with the same declarations gives %s' % (
                text, i, a[:80], b[:80]), i)
        if declarations(twin) != declarations(parser):
            return ('history-dependent', cfg['notation'] + '|declarations', 'parsing %r left declarations %s, a fresh parser with the same prior declarations left %s' % (
                text, declarations(parser), declarations(twin)), i)
        # same string again with an unchanged store gives the same result
        if declarations(parser) == before:
            k2, v2 = traced_parse(parser, text)
            if outcome_repr(k2, v2) != a:
                if near_recursion_limit(text, a, outcome_repr(k2, v2)):
                    return ('history-dependent', cfg['notation'] + '|recursion-limit', 're-parsing %r (nesting depth %d) gives %s after %s' % (
                        text[:40] + '…', nesting(text), outcome_repr(k2, v2)[:40], a[:40]), i)
                return ('history-dependent', cfg['notation'] + '|reparse', 're-parsing %r gives %s after %s' % (text, outcome_repr(k2, v2)[:80], a[:80]), i)
    return None
