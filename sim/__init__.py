"""Deterministic simulation with fault injection for pytableaux (see /verif/DESIGN.md)."""
