"""One integer decides everything: seed derivation (no other entropy source is used)."""
from __future__ import annotations
import random
import zlib

M64 = (1 << 64) - 1
DEFAULT_SEED = 20261002

def sm64(x: int) -> int:
    x = (x + 0x9E3779B97F4A7C15) & M64
    z = x
    z = ((z ^ (z >> 30)) * 0xBF58476D1CE4E5B9) & M64
    z = ((z ^ (z >> 27)) * 0x94D049BB133111EB) & M64
    return z ^ (z >> 31)

def tag(s: str) -> int:
    return zlib.crc32(s.encode())

def derive(*parts) -> int:
    "Fold ints / strings into one 64-bit value."
    h = 0x243F6A8885A308D3
    for p in parts:
        if isinstance(p, str):
            p = tag(p)
        h = sm64(h ^ (int(p) & M64))
    return h

def rng(*parts) -> random.Random:
    return random.Random(derive(*parts))
