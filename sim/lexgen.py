"""Sentence / argument workloads: seeded generation on the tuple AST of sim.ref.refsem,
conversion to and from pytableaux objects, and an own Polish-notation renderer."""
from __future__ import annotations

from pytableaux.lang import (Argument, Atomic, Constant, Operated, Operator, Predicate,
                             Predicated, Quantified, Quantifier, Variable)

from .ref import refsem

IDENTITY = refsem.IDENTITY
EXISTENCE = refsem.EXISTENCE

POL_OPS = dict(Assertion='T', Negation='N', Conjunction='K', Disjunction='A',
               MaterialConditional='C', MaterialBiconditional='E', Conditional='U',
               Biconditional='B', Possibility='M', Necessity='L')
POL_Q = dict(Universal='V', Existential='S')
ATOMS = 'abcde'
CONSTS = 'mnos'
VARS = 'xyzv'
PREDS = 'FGHO'

def _sub(n):
    return str(n) if n else ''

def polish(s) -> str:
    k = s[0]
    if k == 'A':
        return ATOMS[s[1]] + _sub(s[2])
    if k == 'P':
        pk = s[1]
        if pk == IDENTITY: head = 'I'
        elif pk == EXISTENCE: head = 'J'
        else: head = PREDS[pk[0]] + _sub(pk[1])
        return head + ''.join((CONSTS if p[0] == 'c' else VARS)[p[1]] + _sub(p[2]) for p in s[2])
    if k == 'O':
        return POL_OPS[s[1]] + ''.join(polish(x) for x in s[2])
    if k == 'Q':
        return POL_Q[s[1]] + VARS[s[2][0]] + _sub(s[2][1]) + polish(s[3])
    raise ValueError(s)

def argstr(prems, conc) -> str:
    return ':'.join([polish(conc)] + [polish(p) for p in prems])

# -- to pytableaux objects (direct construction, no parser involved)

def _param(p):
    return (Constant if p[0] == 'c' else Variable)(p[1], p[2])

def _pred(pk):
    if pk == IDENTITY: return Predicate.Identity
    if pk == EXISTENCE: return Predicate.Existence
    return Predicate(pk[0], pk[1], pk[2])

def build(s):
    k = s[0]
    if k == 'A':
        return Atomic(s[1], s[2])
    if k == 'P':
        return Predicated(_pred(s[1]), tuple(_param(p) for p in s[2]))
    if k == 'O':
        return Operated(Operator[s[1]], tuple(build(x) for x in s[2]))
    if k == 'Q':
        return Quantified(Quantifier[s[1]], Variable(s[2][0], s[2][1]), build(s[3]))
    raise ValueError(s)

def build_argument(prems, conc):
    return Argument(build(conc), tuple(build(p) for p in prems))

# -- from pytableaux objects (reads structure only)

def to_ast(s):
    t = type(s).__name__
    if t == 'Atomic':
        return ('A', s.index, s.subscript)
    if t == 'Predicated':
        p = s.predicate
        return ('P', (p.index, p.subscript, p.arity),
                tuple((('c' if type(x).__name__ == 'Constant' else 'v'), x.index, x.subscript) for x in s.params))
    if t == 'Operated':
        return ('O', s.operator.name, tuple(to_ast(x) for x in s.operands))
    if t == 'Quantified':
        return ('Q', s.quantifier.name, (s.variable.index, s.variable.subscript), to_ast(s.sentence))
    raise TypeError(t)

def arg_to_ast(arg):
    return [to_ast(p) for p in arg.premises], to_ast(arg.conclusion)

def to_json(s):
    return list(to_json(x) if isinstance(x, tuple) else x for x in s)

def from_json(s):
    return tuple(from_json(x) if isinstance(x, list) else x for x in s)

# -- generation

TF_OPS = ('Assertion', 'Negation', 'Conjunction', 'Disjunction', 'MaterialConditional',
          'MaterialBiconditional', 'Conditional', 'Biconditional')
MODAL_OPS = ('Possibility', 'Necessity')

class Profile:
    """Per-run swarm configuration of the generator."""
    def __init__(self, rng, modal=False, quant=False, preds=False, identity=False,
                 natoms=None, depth=None, ops=None):
        self.natoms = natoms or rng.choice((1, 2, 2, 3, 3, 4))
        self.depth = depth or rng.choice((1, 2, 2, 3, 3))
        ops = list(ops or TF_OPS)
        k = rng.randrange(2, len(ops) + 1)
        self.ops = rng.sample(ops, k)
        if 'Negation' not in self.ops and rng.random() < 0.8:
            self.ops.append('Negation')
        self.modal = modal
        self.quant = quant
        self.preds = preds or quant
        self.identity = identity
        self.nconsts = rng.choice((1, 2, 2, 3))
        # constants in a seeded first-appearance order (not alphabetical)
        self.consts = rng.sample(range(4), self.nconsts)
        self.npreds = rng.choice((1, 1, 2))
        self.arities = [rng.choice((1, 1, 2)) for _ in range(self.npreds)]
        self.p_modal = rng.choice((0.15, 0.3, 0.45)) if modal else 0.0
        self.p_quant = rng.choice((0.15, 0.3)) if quant else 0.0
        self.p_atom_pred = rng.choice((0.3, 0.6, 1.0)) if self.preds else 0.0
        # subscripts: mostly 0; some runs use subscripted symbols (incl. >= 10) throughout
        self.subs = rng.choice(((0,), (0,), (0,), (0, 1), (0, 0, 12), (0, 2, 10)))

def gen_sentence(rng, prof, depth=None, bound=()):
    if depth is None:
        depth = prof.depth
    leaf = depth <= 0 or rng.random() < 0.18
    if leaf:
        return gen_leaf(rng, prof, bound)
    r = rng.random()
    if r < prof.p_quant and len(bound) < 2:
        used = {b[1] for b in bound}
        vi = min(i for i in range(4) if i not in used)
        v = ('v', vi, 0)
        # body must contain the variable: retry a few times
        for _ in range(6):
            body = gen_sentence(rng, prof, depth - 1, bound + (v,))
            if v in refsem._free_vars(body):
                return ('Q', rng.choice(('Existential', 'Universal')), (vi, 0), body)
        body = ('P', (0, 0, 1), (v,)) if prof.arities[0] == 1 else ('P', (0, 0, 2), (v, v))
        return ('Q', rng.choice(('Existential', 'Universal')), (vi, 0), body)
    if r < prof.p_quant + prof.p_modal:
        return ('O', rng.choice(MODAL_OPS), (gen_sentence(rng, prof, depth - 1, bound),))
    op = rng.choice(prof.ops)
    if op in ('Assertion', 'Negation'):
        return ('O', op, (gen_sentence(rng, prof, depth - 1, bound),))
    return ('O', op, (gen_sentence(rng, prof, depth - 1, bound), gen_sentence(rng, prof, depth - 1, bound)))

def gen_leaf(rng, prof, bound=()):
    if prof.preds and (bound or rng.random() < prof.p_atom_pred):
        def param():
            if bound and rng.random() < 0.7:
                return rng.choice(bound)
            return ('c', rng.choice(prof.consts), rng.choice(prof.subs))
        if prof.identity and rng.random() < 0.3:
            if rng.random() < 0.8:
                return ('P', IDENTITY, (param(), param()))
            return ('P', EXISTENCE, (param(),))
        i = rng.randrange(prof.npreds)
        ar = prof.arities[i]
        return ('P', (i, prof.subs[i % len(prof.subs)], ar), tuple(param() for _ in range(ar)))
    return ('A', rng.randrange(prof.natoms), rng.choice(prof.subs))

def gen_argument(rng, prof, nprem=None):
    if nprem is None:
        nprem = rng.choice((0, 1, 1, 2, 2, 3))
    prems = [gen_sentence(rng, prof) for _ in range(nprem)]
    conc = gen_sentence(rng, prof)
    return prems, conc

def close(s):
    "Make sure no variable is free (generation keeps this invariant; assert it)."
    assert not refsem._free_vars(s), s
    return s

# -- simple structural shrinking candidates for minimisation

def shrink_sentence(s):
    "Yield strictly smaller sentences (operands, atoms) for ddmin-style minimisation."
    k = s[0]
    if k == 'O':
        for x in s[2]:
            yield x
        for i, x in enumerate(s[2]):
            for y in shrink_sentence(x):
                yield ('O', s[1], s[2][:i] + (y,) + s[2][i + 1:])
    elif k == 'Q':
        for y in shrink_sentence(s[3]):
            if ('v',) + tuple(s[2]) in refsem._free_vars(y):
                yield ('Q', s[1], s[2], y)
    if k != 'A':
        if not refsem._free_vars(s):
            yield ('A', 0, 0)

def shrink_argument(prems, conc):
    for i in range(len(prems)):
        yield prems[:i] + prems[i + 1:], conc
    for y in shrink_sentence(conc):
        if not refsem._free_vars(y):
            yield prems, y
    for i, p in enumerate(prems):
        for y in shrink_sentence(p):
            if not refsem._free_vars(y):
                yield prems[:i] + [y] + prems[i + 1:], conc
