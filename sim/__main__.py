import sys
from sim.cli import main
sys.exit(main(sys.argv[1:]))
