"""lexsim: construction / rebuild / compare / copy / pickle / mutate-attempt histories on lexical
items under a bounded construction cache with eviction faults. Reference model R3: the
structural tuple each item was built from."""
from __future__ import annotations

import copy
import pickle

from pytableaux.lang import (Argument, Atomic, Constant, LexicalAbc, LexicalAbcMeta, Operated, Operator,
                             Parameter, Predicate, Predicated, Quantified, Quantifier, Sentence, Variable)

from . import lexgen
from .ref import refsem

RANK = dict(Predicate=10, Constant=20, Variable=30, Quantifier=40, Operator=50, Atomic=60,
            Predicated=70, Quantified=80, Operated=90)

def set_cache(k):
    LexicalAbcMeta.__call__._cache.__init__(maxlen=k)

# -- descriptors (JSON) -> (item, structural key, type name)

def make(desc):
    k = desc[0]
    if k == 'const':
        return Constant(desc[1], desc[2]), ('Constant', desc[1], desc[2]), 'Constant'
    if k == 'var':
        return Variable(desc[1], desc[2]), ('Variable', desc[1], desc[2]), 'Variable'
    if k == 'pred':
        if desc[1] == 'Identity': return Predicate.Identity, ('Predicate', -1, 0, 2), 'Predicate'
        if desc[1] == 'Existence': return Predicate.Existence, ('Predicate', -2, 0, 1), 'Predicate'
        return Predicate(desc[1], desc[2], desc[3]), ('Predicate', desc[1], desc[2], desc[3]), 'Predicate'
    if k == 'oper':
        return Operator[desc[1]], ('Operator', desc[1]), 'Operator'
    if k == 'quant':
        return Quantifier[desc[1]], ('Quantifier', desc[1]), 'Quantifier'
    if k == 'sent':
        ast = lexgen.from_json(desc[1])
        it = lexgen.build(ast)
        return it, ('Sentence', ast), type(it).__name__
    if k == 'arg':
        prems = [lexgen.from_json(p) for p in desc[2]]
        conc = lexgen.from_json(desc[1])
        return lexgen.build_argument(prems, conc), ('Argument', conc, tuple(prems)), 'Argument'
    raise ValueError(desc)

def gen_desc(rng, sysbias=0.35):
    r = rng.random()
    if r < 0.1: return ['const', rng.randrange(4), rng.choice((0, 0, 1, 2, 11, 120))]
    if r < 0.18: return ['var', rng.randrange(4), rng.choice((0, 0, 1))]
    if r < 0.3:
        if rng.random() < sysbias: return ['pred', rng.choice(('Identity', 'Existence'))]
        return ['pred', rng.randrange(4), rng.choice((0, 0, 1, 13)), rng.choice((1, 1, 2, 3))]
    if r < 0.34: return ['oper', rng.choice(refsem.OPERATORS)]
    if r < 0.37: return ['quant', rng.choice(('Existential', 'Universal'))]
    prof = lexgen.Profile(rng, modal=rng.random() < 0.4, quant=rng.random() < 0.5, preds=True,
                          identity=rng.random() < sysbias + 0.25, depth=rng.choice((0, 1, 2, 3)))
    if r < 0.9:
        s = lexgen.gen_sentence(rng, prof)
        if rng.random() < 0.3:
            # lexical items need not be closed or non-vacuous: arbitrary binders over arbitrary bodies
            for _ in range(rng.choice((1, 1, 2))):
                if rng.random() < 0.5:
                    v = ('v', rng.randrange(4), rng.choice((0, 0, 1)))
                    body = ('P', (rng.randrange(2), 0, 2), (rng.choice((v, ('v', rng.randrange(4), 0), ('c', rng.randrange(4), 0))),
                                                            rng.choice((v, ('v', rng.randrange(4), 0), ('c', rng.randrange(4), 0)))))
                    s = rng.choice((s, body, ('O', 'Conjunction', (body, s))))
                s = ('Q', rng.choice(('Existential', 'Universal')), (rng.randrange(4), rng.choice((0, 0, 1))), s)
        return ['sent', lexgen.to_json(s)]
    prems, conc = lexgen.gen_argument(rng, prof, nprem=rng.choice((0, 1, 2)))
    return ['arg', lexgen.to_json(conc), [lexgen.to_json(p) for p in prems]]

def gen_ops(rng, n):
    ops = []
    for _ in range(n):
        r = rng.random()
        if r < 0.3 or not ops:
            ops.append(['new', gen_desc(rng)])
        elif r < 0.36:
            ops.append(['dup', rng.randrange(1 << 16)])                  # construct the same thing again
        elif r < 0.5:
            ops.append(['rebuild', rng.randrange(1 << 16), rng.choice(('spec', 'ident-abstract', 'ident-lexabc')),
                        rng.random() < 0.5])                             # last: evict between taking the ident/spec and rebuilding
        elif r < 0.58:
            ops.append(['copy', rng.randrange(1 << 16), rng.choice(('copy', 'deepcopy', 'pickle'))])
        elif r < 0.76:
            ops.append(['cmp', rng.randrange(1 << 16), rng.randrange(1 << 16), rng.randrange(1 << 16)])
        elif r < 0.8:
            ops.append(['sort', [rng.randrange(1 << 16) for _ in range(rng.randrange(2, 7))]])
        elif r < 0.86:
            ops.append(['mutate', rng.randrange(1 << 16), rng.choice(('set', 'del')), rng.randrange(8)])
        elif r < 0.92:
            ops.append(['derive', rng.randrange(1 << 16), rng.choice(('negate', 'negative', 'substitute', 'unquantify', 'next'))])
        elif r < 0.94:
            ops.append(['evict', rng.choice((1, 2, 5, 12, 1200))])
        elif r < 0.97:
            # ask an abstract class of the wrong family to build from an item's ident
            ops.append(['wrongcat', rng.randrange(1 << 16), rng.random() < 0.5])
        else:
            # an invalid spec must be refused whatever was constructed (and cached) before
            ops.append(['invalid', rng.choice((['Constant', 0, -1], ['Constant', -1, 0], ['Constant', 9, 0], ['Variable', 0, -2],
                                              ['Atomic', 7, 0], ['Atomic', 0, -1], ['Predicate', 0, 0, 0], ['Predicate', 0, -1, 1],
                                              ['Predicate', 5, 0, 1], ['Predicate', 0, 0, -1]))])
    return ops

_filler = [0]
def evict(n):
    "Filler constructions that push earlier items out of the cache."
    for _ in range(n):
        _filler[0] += 1
        Atomic(4, 1000 + (_filler[0] % 100000))

def skey(key):
    return repr(key)

class Fail(Exception):
    def __init__(self, clause, site, msg):
        self.clause, self.site, self.msg = clause, site, msg

def has_system(key):
    return '-1, 0, 2' in repr(key) or '-2, 0, 1' in repr(key)

def typename_of(item):
    return type(item).__name__

def execute(spec, cache=None):
    """Runs the history under the given cache size. Returns (observation log, Fail or None)."""
    _filler[0] = 0
    set_cache(cache if cache is not None else spec['cache'])
    live = []      # (item, key, typename)
    log = []
    def pick(j):
        return live[j % len(live)]
    try:
        for step, op in enumerate(spec['ops']):
            name = op[0]
            if name == 'new':
                it, key, tn = make(op[1])
                check_item(it, key, tn, 'new')
                live.append((it, key, tn))
                log.append(('new', tn))
            elif not live:
                continue
            elif name == 'dup':
                it, key, tn = pick(op[1])
                it2 = remake(key, tn)
                if it2 is None:
                    continue
                if not (it2 == it) or hash(it2) != hash(it):
                    raise Fail('equality', 'construct-again|' + tn, 'constructing %s again gives an unequal item or hash' % show(key))
                log.append(('dup', True))
            elif name == 'rebuild':
                it, key, tn = pick(op[1])
                route = op[2]
                if tn == 'Argument' or tn in ('Operator', 'Quantifier'):
                    continue
                ident, sp = it.ident, it.spec
                if op[3]:
                    evict(spec['cache'] + 3)       # enough to push the original out of the cache under test
                cls = type(it)
                try:
                    if route == 'spec':
                        it2 = cls(*sp)
                    elif route == 'ident-abstract':
                        # the abstract class of the item's family: Sentence / Parameter; Predicate is concrete
                        it2 = (Sentence if isinstance(it, Sentence) else Parameter if isinstance(it, Parameter) else LexicalAbc)(ident)
                    else:
                        it2 = LexicalAbc(ident)
                except Exception as e:
                    raise Fail('rebuild', '%s|%s|%s' % (route, tn, 'system-predicate' if has_system(key) else 'plain'),
                               'rebuilding %s via %s raised %s: %s' % (show(key), route, type(e).__name__, e))
                if not (it2 == it) or hash(it2) != hash(it) or type(it2) is not type(it):
                    raise Fail('rebuild', '%s|%s|unequal' % (route, tn), 'rebuilding %s via %s gives %r' % (show(key), route, it2))
                log.append(('rebuild', route, True))
            elif name == 'copy':
                it, key, tn = pick(op[1])
                try:
                    if op[2] == 'copy': it2 = copy.copy(it)
                    elif op[2] == 'deepcopy': it2 = copy.deepcopy(it)
                    else: it2 = pickle.loads(pickle.dumps(it))
                except Exception as e:
                    raise Fail('copy', '%s|%s|%s' % (op[2], tn, 'system-predicate' if has_system(key) else 'plain'),
                               '%s of %s raised %s: %s' % (op[2], show(key), type(e).__name__, e))
                if not (it2 == it) or hash(it2) != hash(it):
                    raise Fail('copy', '%s|%s|unequal' % (op[2], tn), '%s of %s is not equal to it' % (op[2], show(key)))
                log.append(('copy', op[2], True))
            elif name == 'cmp':
                a, b, c = pick(op[1]), pick(op[2]), pick(op[3])
                log.append(('cmp',) + compare(a, b) + compare(b, c) + compare(a, c))
                transitivity(a, b, c)
            elif name == 'sort':
                items = [pick(j) for j in op[1]]
                if any(x[2] == 'Argument' for x in items) and not all(x[2] == 'Argument' for x in items):
                    continue
                try:
                    srt = sorted(x[0] for x in items)
                except Exception as e:
                    raise Fail('order', 'sorted-raises', 'sorted() raised %s: %s' % (type(e).__name__, e))
                if sorted(map(id, srt)) != sorted(id(x[0]) for x in items):
                    raise Fail('order', 'sorted-not-permutation', 'sorted() is not a permutation of its input')
                for x, y in zip(srt, srt[1:]):
                    if y < x:
                        raise Fail('order', 'sorted-inconsistent', 'sorted() output has y < x for adjacent x, y')
                log.append(('sort', tuple(repr(x) for x in srt)))
            elif name == 'mutate':
                it, key, tn = pick(op[1])
                if tn in ('Operator', 'Quantifier'):
                    continue
                attrs = [a for a in ('spec', 'ident', 'sort_tuple', 'hash', 'index', 'subscript', 'arity', 'operator', 'operands',
                                     'sentence', 'variable', 'quantifier', 'predicate', 'params', 'premises', 'conclusion', 'seq')
                         if hasattr(it, a)]
                if not attrs:
                    continue
                a = attrs[op[3] % len(attrs)]
                before = (repr(it), hash(it), getattr(it, a))
                raised = False
                try:
                    if op[2] == 'set':
                        setattr(it, a, 12345)
                    else:
                        delattr(it, a)
                except Exception:
                    raised = True
                after = None
                try:
                    after = (repr(it), hash(it), getattr(it, a))
                except Exception:
                    pass
                if after != before:
                    raise Fail('immutable', '%s|%s' % (op[2], tn), '%sattr(%s, %r) changed the item' % (op[2], show(key), a))
                if not raised:
                    raise Fail('immutable', '%s-accepted|%s' % (op[2], tn), '%sattr(%s, %r) did not raise' % (op[2], show(key), a))
                log.append(('mutate', True))
            elif name == 'derive':
                it, key, tn = pick(op[1])
                r = derive(it, key, tn, op[2])
                if r is not None:
                    it2, key2 = r
                    if key2[0] == 'Sentence':
                        # what a derivation yields is C15's business (and undefined for re-bound
                        # variables); here the derived item only joins the pool under its own structure
                        key2 = ('Sentence', lexgen.to_ast(it2))
                    tn2 = type(it2).__name__
                    check_item(it2, key2, tn2, 'derive-' + op[2])
                    live.append((it2, key2, tn2))
                    log.append(('derive', op[2], tn2))
            elif name == 'evict':
                evict(min(op[1], spec['cache'] + 3))
            elif name == 'wrongcat':
                it, key, tn = pick(op[1])
                if tn in ('Argument', 'Operator', 'Quantifier'):
                    continue
                ident = it.ident
                if op[2]:
                    evict(spec['cache'] + 3)
                wrong = Parameter if isinstance(it, Sentence) else Sentence
                try:
                    got = wrong(ident)
                except Exception as e:
                    log.append(('wrongcat', tn, 'refused'))
                else:
                    if not isinstance(got, wrong):
                        raise Fail('rebuild', 'wrong-category|%s' % tn, '%s(%r) returned a %s' % (wrong.__name__, ident, type(got).__name__))
                    log.append(('wrongcat', tn, 'accepted'))
            elif name == 'invalid':
                cls = dict(Constant=Constant, Variable=Variable, Atomic=Atomic, Predicate=Predicate)[op[1][0]]
                # a valid neighbour first, so that a colliding cache entry could exist
                try:
                    cls(*[abs(x) % 3 + (1 if cls is Predicate and i == 2 else 0) for i, x in enumerate(op[1][1:])])
                except Exception:
                    pass
                # whether a spec is refused is not C14's business; that the answer is the same in
                # every construction history (the twin run) is
                try:
                    cls(*op[1][1:])
                except Exception as e:
                    log.append(('invalid', op[1][0], 'refused'))
                else:
                    log.append(('invalid', op[1][0], 'accepted'))
    except Fail as f:
        return log, (f, step)
    except Exception as e:
        # an exception escaping from library code on an operation the model takes to be valid
        # (e.g. a filler construction) is the library's failure, not the harness's
        import traceback
        tb = traceback.extract_tb(e.__traceback__)
        if tb and '/pytableaux/' in tb[-1].filename:
            site = '%s:%s' % (tb[-1].filename.rsplit('/', 1)[1].replace('.py', ''), tb[-1].name)
            return log, (Fail('raises', '%s@%s' % (type(e).__name__, site), 'operation %r raised %s: %s' % (
                spec['ops'][step][:2], type(e).__name__, str(e)[:200])), step)
        raise
    return log, None

def remake(key, tn):
    if tn in ('Constant', 'Variable'):
        return make(['const' if tn == 'Constant' else 'var', key[1], key[2]])[0]
    if tn == 'Predicate':
        if key[1] < 0:
            return make(['pred', 'Identity' if key[1] == -1 else 'Existence'])[0]
        return make(['pred', key[1], key[2], key[3]])[0]
    if key[0] == 'Sentence':
        return lexgen.build(key[1])
    if key[0] == 'Argument':
        # the title is documented as not part of an argument's value: the second construction
        # carries one, the first did not
        return Argument(lexgen.build(key[1]), tuple(lexgen.build(p) for p in key[2]), title='constructed again')
    return None

def show(key):
    if key[0] == 'Sentence':
        try:
            return lexgen.polish(key[1])
        except Exception:
            return repr(key[1])
    if key[0] == 'Argument':
        return lexgen.argstr(list(key[2]), key[1])
    return repr(key)

def check_item(it, key, tn, how):
    if hash(it) != hash(it):
        raise Fail('hash', 'unstable', 'hash changes between calls')
    if not (it == it) or it != it:
        raise Fail('equality', 'irreflexive|' + tn, '%s is not equal to itself' % show(key))

def same(a, b):
    return a[1] == b[1]

def compare(a, b):
    ia, ib = a[0], b[0]
    ta, tb = a[2], b[2]
    arg_a, arg_b = ta == 'Argument', tb == 'Argument'
    eq = (ia == ib)
    if eq is NotImplemented:
        eq = False
    eq = bool(eq)
    if eq != same(a, b):
        raise Fail('equality', 'structural|%s|%s' % tuple(sorted((ta, tb))), '%s == %s is %s but they are %s' % (
            show(a[1]), show(b[1]), eq, 'structurally identical' if same(a, b) else 'structurally different'))
    if eq and hash(ia) != hash(ib):
        raise Fail('hash', 'equal-unequal-hash|' + ta, 'equal items %s have different hashes' % show(a[1]))
    if (ia != ib) == eq:
        raise Fail('equality', 'ne-inconsistent', '!= disagrees with == on %s, %s' % (show(a[1]), show(b[1])))
    if arg_a != arg_b:
        return (eq, None)
    try:
        lt, gt, le, ge = ia < ib, ia > ib, ia <= ib, ia >= ib
    except Exception as e:
        raise Fail('order', 'compare-raises|%s|%s' % tuple(sorted((ta, tb))), 'comparing %s and %s raised %s' % (show(a[1]), show(b[1]), type(e).__name__))
    if (lt + gt + eq) != 1:
        raise Fail('order', 'not-total|%s|%s' % tuple(sorted((ta, tb))), 'exactly one of <, ==, > must hold for %s, %s: lt=%s eq=%s gt=%s' % (
            show(a[1]), show(b[1]), lt, eq, gt))
    if le != (lt or eq) or ge != (gt or eq):
        raise Fail('order', 'le-ge-inconsistent', '<= / >= disagree with < / == on %s, %s' % (show(a[1]), show(b[1])))
    if not arg_a and ta in RANK and tb in RANK and RANK[ta] != RANK[tb]:
        if lt != (RANK[ta] < RANK[tb]):
            raise Fail('order', 'type-rank|%s|%s' % tuple(sorted((ta, tb))), '%s (%s) vs %s (%s): order does not follow type rank' % (
                show(a[1]), ta, show(b[1]), tb))
    return (eq, lt)

def transitivity(a, b, c):
    if (a[2] == 'Argument') != (b[2] == 'Argument') or (b[2] == 'Argument') != (c[2] == 'Argument'):
        return
    x, y, z = a[0], b[0], c[0]
    if x < y and y < z and not x < z:
        raise Fail('order', 'not-transitive', 'a<b and b<c but not a<c for %s, %s, %s' % (show(a[1]), show(b[1]), show(c[1])))
    if x == y and y == z and not x == z:
        raise Fail('equality', 'not-transitive', 'equality not transitive')

def derive(it, key, tn, how):
    if key[0] != 'Sentence':
        if how == 'next' and tn in ('Constant', 'Variable'):
            try:
                n = it.next()
            except StopIteration:
                return None
            return n, (tn, n.index, n.subscript)
        return None
    ast = key[1]
    if how == 'negate':
        return it.negate(), ('Sentence', ('O', 'Negation', (ast,)))
    if how == 'negative':
        if ast[0] == 'O' and ast[1] == 'Negation':
            return it.negative(), ('Sentence', ast[2][0])
        return it.negative(), ('Sentence', ('O', 'Negation', (ast,)))
    if how == 'substitute':
        cs = refsem.constants_of(ast)
        if not cs:
            return None
        old = cs[0]
        new = ('c', (old[1] + 1) % 4, old[2])
        return it.substitute(Constant(new[1], new[2]), Constant(old[1], old[2])), ('Sentence', refsem.subst(ast, old, new))
    if how == 'unquantify' and ast[0] == 'Q':
        c = ('c', 2, 0)
        return Constant(2, 0) >> it, ('Sentence', refsem.subst(ast[3], ('v',) + tuple(ast[2]), c))
    return None
