"""Shared helpers for the proofsim-based checks: minimisation and root-cause keys."""
from __future__ import annotations

from . import lexgen, proofsim
from .ref import refsem

def base_logic(name):
    base, frame = refsem.parse_name(name)
    return base

def shape(prems, conc):
    "Operator / quantifier / predicate-kind vocabulary of an argument, sorted."
    names = set()
    for s in list(prems) + [conc]:
        for x in refsem.walk(s):
            if x[0] == 'O':
                names.add(x[1])
            elif x[0] == 'Q':
                names.add(x[1])
            elif x[0] == 'P':
                if x[1] == refsem.IDENTITY: names.add('Identity')
                elif x[1] == refsem.EXISTENCE: names.add('Existence')
                else: names.add('Pred')
    return '+'.join(sorted(names)) or 'atoms'

def minimise_cfg(cfg, fails, budget=120):
    """Greedy shrink of a failing proofsim.Config while fails(cfg) stays true.
    Order: schedule/knobs first, then the argument, then the logic."""
    calls = [0]
    def ok(c):
        if calls[0] >= budget:
            return False
        calls[0] += 1
        try:
            return bool(fails(c))
        except Exception:
            return False
    # knobs
    for kw in (dict(order_seed=0, overrides={}), dict(cache=1000), dict(drive='build'),
               dict(clock_base=1, clock_plan={}), dict(late_setup=False)):
        if all(getattr(cfg, k) == v for k, v in kw.items()):
            continue
        c = cfg.replace(**kw)
        if ok(c):
            cfg = c
    for k in list(cfg.opts):
        if k in ('max_steps', 'build_timeout'):
            continue        # never drop a safety net or the fault under study while shrinking
        default = dict(is_group_optim=True, is_rank_optim=True, is_build_models=False,
                       max_steps=None, build_timeout=None).get(k, None)
        if cfg.opts[k] != default:
            o = dict(cfg.opts); o[k] = default
            if default is None: o.pop(k)
            c = cfg.replace(opts=o)
            if ok(c):
                cfg = c
    # argument
    changed = True
    while changed and calls[0] < budget:
        changed = False
        for prems, conc in lexgen.shrink_argument(list(cfg.prems), cfg.conc):
            c = cfg.replace(prems=prems, conc=conc)
            if ok(c):
                cfg = c
                changed = True
                break
    # logic: try the non-modal base when the argument has no modal operator
    b = base_logic(cfg.logic)
    if b != cfg.logic and not any(refsem.has_modal(s) for s in cfg.prems + [cfg.conc]):
        c = cfg.replace(logic=b)
        if ok(c):
            cfg = c
    return cfg

def outcome_of(cfg, monitor=None):
    return proofsim.run(cfg, monitor).outcome

def report(ctx, prop, clause, cfg, message, key):
    "Register a violation of `prop` under a root-cause key; the spec is the raw failing config."
    spec = dict(cfg=cfg.to_json(), clause=clause)
    return ctx.violation('%s/%s' % (prop, clause), key, message, spec)

def minimise_violation(v, fails_with_key, budget=120):
    """Kernel hook: shrink v.spec['cfg'] while the same key is produced."""
    from .kernel import Violation
    cfg = proofsim.Config.from_json(v.spec['cfg'])
    small = minimise_cfg(cfg, lambda c: fails_with_key(c) == v.key, budget)
    spec = dict(cfg=small.to_json(), clause=v.spec.get('clause'), original=v.spec['cfg'])
    return Violation(v.clause, v.key, v.message + ' :: minimised to ' + small.label(), spec, None)

def kernel_digest(res):
    from .kernel import digest_of
    return digest_of(res.digest_events())

# ---------------------------------------------------------------------------
# families: relate runs of related arguments / configurations

def verdict_class(outcome):
    if outcome == 'valid':
        return 'valid'
    if outcome == 'refuted':
        return 'refuted'
    if outcome.startswith('error'):
        return 'error'
    return 'no-verdict'

def raise_site(err):
    "module:function of the innermost pytableaux frame of an exception (root-cause key for raises)."
    import traceback
    tb = traceback.extract_tb(err.__traceback__)
    site = '?'
    for fr in tb:
        if '/pytableaux/' in fr.filename:
            site = '%s:%s' % (fr.filename.rsplit('/pytableaux/', 1)[1].replace('.py', ''), fr.name)
    return '%s@%s' % (type(err).__name__, site)

def explain_conflict(rng, valid, refuted, budget=2000):
    """A 'valid' run and a 'refuted' run that cannot both be right (same argument, or related by
    a law). Returns (root-cause key, sentence). valid/refuted = (cfg, result)."""
    from . import diagnose
    from .checks import c02
    vcfg, vres = valid
    rcfg, rres = refuted
    sem = refsem.get(vcfg.logic)
    prems, conc = vcfg.prems, vcfg.conc
    cm, source = None, None
    prop = all(refsem.is_propositional(s) for s in prems + [conc])
    if prop:
        ok, m = refsem.truth_table_valid(sem, prems, conc, max_cells=6)
        if ok is False:
            cm, source = m, 'truth-table'
    if cm is None:
        # the refuting run's own models, judged in the semantics of the proving logic
        for b in rres.tab.open:
            if proofsim.is_flagged(b) or b.model is None:
                continue
            try:
                rm = proofsim.mirror_model(sem, b.model)
                if sem.frame_ok(rm.worlds, rm.R) and all(v in sem.values for v in list(rm.atom.values()) + list(rm.pred.values()) + list(rm.opaque.values())) \
                        and sem.is_countermodel(rm, prems, conc):
                    cm, source = rm, 'model-of-refuting-run'
                    break
            except (KeyError, ValueError):
                continue
    if cm is None and not prop:
        cm, st = refsem.find_countermodel(sem, prems, conc, rng, budget=budget)
        source = 'r1-search'
    if cm is not None:
        cause = diagnose.unsound(sem, vres.tab, cm, frames=False) if prop else diagnose.unsound_ext(sem, vres.tab, cm)
        if cause.startswith(('rule=', 'closure=')):
            return 'unsound|' + cause, 'the valid verdict of %s is wrong: R1 verifies a countermodel (%s; %s)' % (vcfg.logic, source, cause)
        return 'unsound|%s|%s|%s' % (vcfg.logic, cause, shape(prems, conc)), 'the valid verdict of %s is wrong: R1 verifies a countermodel (%s)' % (vcfg.logic, source)
    # is the refutation bad by the library's own standards?
    if rres.tab.argument is not None:
        for b in rres.tab.open:
            if proofsim.is_flagged(b) or b.model is None:
                continue
            v = c02.branch_verdict(rres.tab, b, rres.tab.argument)
            if v is not None:
                return 'bad-refutation|%s|%s' % (c02.scope(rcfg.logic, v[1]), v[1]), 'the refutation of %s is wrong: %s' % (rcfg.logic, v[2])
    rsem = refsem.get(rcfg.logic)
    if all(refsem.is_propositional(s) for s in rcfg.prems + [rcfg.conc]):
        ok, m = refsem.truth_table_valid(rsem, rcfg.prems, rcfg.conc, max_cells=6)
        if ok is True:
            b = next(b for b in rres.tab.open if not proofsim.is_flagged(b))
            cause = diagnose.incomplete(rsem, rres.tab, b)
            return 'incomplete|' + (cause if cause.startswith('rule=') else '%s|%s' % (base_logic(rcfg.logic), cause)), \
                'the refutation of %s is wrong: the argument is valid by truth tables (%s)' % (rcfg.logic, cause)
    return 'unexplained|%s|%s|%s' % (vcfg.logic, rcfg.logic, shape(prems, conc)), 'neither side could be refuted by the reference semantics within bounds'
