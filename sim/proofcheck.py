"""Shared helpers for the proofsim-based checks: minimisation and root-cause keys."""
from __future__ import annotations

from . import lexgen, proofsim
from .ref import refsem

def base_logic(name):
    base, frame = refsem.parse_name(name)
    return base

def shape(prems, conc):
    "Operator / quantifier / predicate-kind vocabulary of an argument, sorted."
    names = set()
    for s in list(prems) + [conc]:
        for x in refsem.walk(s):
            if x[0] == 'O':
                names.add(x[1])
            elif x[0] == 'Q':
                names.add(x[1])
            elif x[0] == 'P':
                if x[1] == refsem.IDENTITY: names.add('Identity')
                elif x[1] == refsem.EXISTENCE: names.add('Existence')
                else: names.add('Pred')
    return '+'.join(sorted(names)) or 'atoms'

def minimise_cfg(cfg, fails, budget=120):
    """Greedy shrink of a failing proofsim.Config while fails(cfg) stays true.
    Order: schedule/knobs first, then the argument, then the logic."""
    calls = [0]
    def ok(c):
        if calls[0] >= budget:
            return False
        calls[0] += 1
        try:
            return bool(fails(c))
        except Exception:
            return False
    # knobs
    for kw in (dict(order_seed=0, overrides={}), dict(cache=1000), dict(drive='build'),
               dict(clock_base=1, clock_plan={}), dict(late_setup=False)):
        if all(getattr(cfg, k) == v for k, v in kw.items()):
            continue
        c = cfg.replace(**kw)
        if ok(c):
            cfg = c
    for k in list(cfg.opts):
        default = dict(is_group_optim=True, is_rank_optim=True, is_build_models=False,
                       max_steps=None, build_timeout=None).get(k, None)
        if cfg.opts[k] != default:
            o = dict(cfg.opts); o[k] = default
            if default is None: o.pop(k)
            c = cfg.replace(opts=o)
            if ok(c):
                cfg = c
    # argument
    changed = True
    while changed and calls[0] < budget:
        changed = False
        for prems, conc in lexgen.shrink_argument(list(cfg.prems), cfg.conc):
            c = cfg.replace(prems=prems, conc=conc)
            if ok(c):
                cfg = c
                changed = True
                break
    # logic: try the non-modal base when the argument has no modal operator
    b = base_logic(cfg.logic)
    if b != cfg.logic and not any(refsem.has_modal(s) for s in cfg.prems + [cfg.conc]):
        c = cfg.replace(logic=b)
        if ok(c):
            cfg = c
    return cfg

def outcome_of(cfg, monitor=None):
    return proofsim.run(cfg, monitor).outcome

def report(ctx, prop, clause, cfg, message, key):
    "Register a violation of `prop` under a root-cause key; the spec is the raw failing config."
    spec = dict(cfg=cfg.to_json(), clause=clause)
    return ctx.violation('%s/%s' % (prop, clause), key, message, spec)

def minimise_violation(v, fails_with_key, budget=120):
    """Kernel hook: shrink v.spec['cfg'] while the same key is produced."""
    from .kernel import Violation
    cfg = proofsim.Config.from_json(v.spec['cfg'])
    small = minimise_cfg(cfg, lambda c: fails_with_key(c) == v.key, budget)
    spec = dict(cfg=small.to_json(), clause=v.spec.get('clause'), original=v.spec['cfg'])
    return Violation(v.clause, v.key, v.message + ' :: minimised to ' + small.label(), spec, None)

def kernel_digest(res):
    from .kernel import digest_of
    return digest_of(res.digest_events())
