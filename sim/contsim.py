"""contsim: operation histories with veto / raise faults on the ordered-set containers.

Reference model R2: a Python list without duplicates. See DESIGN.md §6 C18 for who decides
what (accepted operation => state equals the model's; rejected single-element operation =>
nothing observable changed; rejected bulk operation => still a consistent ordered set).
"""
from __future__ import annotations

from pytableaux.lang import Predicate, Predicates
from pytableaux.tools.hybrids import qset
from pytableaux.tools.linked import linqset

class Veto(Exception):
    "Injected rejection from a container extension point."

def _mk_classes():
    class VQset(qset):
        __slots__ = ('_poison',)
        def _hook_cast(self, value):
            value = super()._hook_cast(value)
            p = getattr(self, '_poison', None)
            if p and p[0] == 'cast' and value in p[1]:
                raise Veto(('cast', value))
            return value
        def _hook_check(self, arriving, leaving):
            super()._hook_check(arriving, leaving)
            p = getattr(self, '_poison', None)
            if p and p[0] == 'check':
                for v in arriving:
                    if v in p[1]:
                        raise Veto(('arrive', v))
            if p and p[0] == 'leave':
                for v in leaving:
                    if v in p[1]:
                        raise Veto(('leave', v))
    class VLinqset(linqset):
        __slots__ = ('_poison',)
        def _hook_check(self, arriving, leaving):
            super()._hook_check(arriving, leaving)
            p = getattr(self, '_poison', None)
            if p and p[0] == 'check':
                for v in arriving:
                    if v in p[1]:
                        raise Veto(('arrive', v))
            if p and p[0] == 'leave':
                for v in leaving:
                    if v in p[1]:
                        raise Veto(('leave', v))
    # Predicates cannot be subclassed once pytableaux.lang is initialised (its metaclass is
    # read-only); its own _hook_check conflict veto is exercised through conflicting inputs.
    return dict(qset=VQset, linqset=VLinqset, Predicates=Predicates)

CLASSES = _mk_classes()
KINDS = ('qset', 'linqset', 'Predicates')

PRED_SPECS = ((0, 0, 1), (0, 0, 2), (1, 0, 1), (1, 0, 2), (2, 1, 1), 'Identity')

def universe(kind):
    if kind == 'Predicates':
        return [Predicate(s) for s in PRED_SPECS]
    return list(range(6))

def val(kind, j):
    if kind == 'Predicates':
        return Predicate(PRED_SPECS[j])
    return j

SINGLE = {'append', 'add', 'insert', 'setitem', 'delitem', 'remove', 'discard', 'pop', 'wedge'}
BULK = {'setslice', 'delslice', 'sort', 'reverse', 'clear', 'extend', 'update', 'iadd',
        'ior', 'iand', 'isub', 'ixor', 'self_ior', 'self_iand', 'self_isub', 'self_ixor'}
PURE = {'or', 'and', 'sub', 'xor', 'plus', 'copy', 'getslice'}

def gen_ops(rng, kind, n, faults=True):
    ops = []
    U = 6
    def v():
        return rng.randrange(U)
    def vs():
        return [v() for _ in range(rng.randrange(0, 4))]
    def idx():
        return rng.randrange(-7, 7)
    def sl():
        def b():
            return rng.choice([None, None, idx()])
        return [b(), b(), rng.choice([None, None, None, 1, 2, -1, -2, 3])]
    names = ['append'] * 6 + ['add'] * 4 + ['insert'] * 4 + ['setitem'] * 4 + ['delitem'] * 2 + \
        ['remove'] * 2 + ['discard'] * 2 + ['pop'] * 2 + ['setslice'] * 4 + ['delslice'] * 2 + \
        ['sort', 'reverse', 'reverse', 'clear', 'extend', 'extend', 'update', 'iadd', 'ior', 'iand',
         'isub', 'ixor', 'or', 'and', 'sub', 'xor', 'plus', 'copy', 'copy', 'getslice',
         'self_ior', 'self_iand', 'self_isub', 'self_ixor']
    if kind == 'linqset':
        names += ['wedge'] * 4
    for _ in range(n):
        if faults and rng.random() < 0.12:
            mode = rng.choice(['cast', 'check', 'leave', None])
            if kind == 'linqset' and mode == 'cast':
                mode = 'check'
            ops.append(['poison', mode, sorted({v() for _ in range(rng.randrange(1, 3))})])
            continue
        name = rng.choice(names)
        if name in ('append', 'add', 'remove', 'discard'):
            ops.append([name, v()])
        elif name == 'insert':
            ops.append([name, idx(), v()])
        elif name == 'setitem':
            ops.append([name, idx(), v()])
        elif name in ('delitem', 'pop'):
            ops.append([name, idx()])
        elif name == 'setslice':
            ops.append([name, sl(), vs()])
        elif name in ('delslice', 'getslice'):
            ops.append([name, sl()])
        elif name == 'sort':
            ops.append([name, rng.random() < 0.5])
        elif name in ('reverse', 'clear', 'copy') or name.startswith('self_'):
            ops.append([name])
        elif name == 'wedge':
            ops.append([name, v(), v(), rng.choice([-1, 1])])
        else:
            ops.append([name, vs()])
    return ops

class Unobservable(Exception):
    "The read API itself raised (or did not terminate): the container is corrupt."

def observe(kind, c, uni):
    try:
        return _observe(kind, c, uni)
    except Exception as e:
        raise Unobservable('%s: %s' % (type(e).__name__, e)) from None

def _bounded(it, limit=64):
    out = []
    for x in it:
        out.append(x)
        if len(out) > limit:
            raise RuntimeError('iteration does not end (more than %d items)' % limit)
    return out

def _observe(kind, c, uni):
    "Everything the property lets a user observe, through the public read API."
    seq = _bounded(c)
    obs = dict(
        seq=seq,
        len=len(c),
        mem=[u in c for u in uni],
        rev=_bounded(reversed(c)),
        items=[c[i] for i in range(len(c))],
        neg=[c[-i - 1] for i in range(len(c))])
    idx = []
    for u in uni:
        try:
            idx.append(c.index(u))
        except Exception as e:  # MissingValueError is a ValueError
            idx.append(type(e).__name__)
    obs['index'] = idx
    obs['count'] = [c.count(u) for u in uni]
    if kind == 'Predicates':
        look = []
        for u in uni:
            row = []
            for ref in sorted(u.refs, key=repr):
                got = c._lookup.get(ref) if False else c.get(ref, None)
                row.append(None if got is None else got.spec)
            look.append(row)
        obs['lookup'] = look
    return obs

def consistent(kind, obs, uni):
    "Is the observation that of *some* ordered set? Returns None or a message."
    seq = obs['seq']
    for i, x in enumerate(seq):
        if x in seq[:i]:
            return 'duplicate member %r in iteration %r' % (x, seq)
    if obs['len'] != len(seq):
        return 'len() %s but iteration has %s' % (obs['len'], len(seq))
    if obs['items'] != seq:
        return 'c[i] %r differs from iteration %r' % (obs['items'], seq)
    if obs['neg'] != seq[::-1] or obs['rev'] != seq[::-1]:
        return 'reversed/negative indexing %r / %r differs from iteration %r' % (obs['rev'], obs['neg'], seq)
    for u, m, ix, ct in zip(uni, obs['mem'], obs['index'], obs['count']):
        if m != (u in seq):
            return 'membership of %r is %s but iteration is %r' % (u, m, seq)
        if u in seq:
            if ix != seq.index(u):
                return 'index(%r) is %r but iteration is %r' % (u, ix, seq)
            if ct != 1:
                return 'count(%r) is %r' % (u, ct)
        else:
            if isinstance(ix, int):
                return 'index(%r) returned %r for a non-member' % (u, ix)
            if ct != 0:
                return 'count(%r) is %r for a non-member' % (u, ct)
    if kind == 'Predicates':
        # never two members with one symbol and different arity; found by every ref
        seen = {}
        for p in seq:
            if p.bicoords in seen and seen[p.bicoords] != p:
                return 'conflicting predicates %s and %s both members' % (seen[p.bicoords].spec, p.spec)
            seen[p.bicoords] = p
        for u, row in zip(uni, obs['lookup']):
            refs = sorted(u.refs, key=repr)
            for ref, got in zip(refs, row):
                if u in seq:
                    if got != u.spec:
                        return 'member %s not found by ref %r (got %r)' % (u.spec, ref, got)
                else:
                    # non-members: a ref may legitimately resolve to a *member* sharing it
                    # (bicoords) or to a system predicate; it must not resolve to a non-member
                    if got is not None:
                        owner = [p for p in seq if p.spec == got]
                        if not owner and not (u.is_system and got == u.spec):
                            return 'removed/non-member %s still found by ref %r' % (u.spec, ref)
    return None

def has_dup(lst):
    return any(x in lst[:i] for i, x in enumerate(lst))

def conflict(kind, lst):
    if kind != 'Predicates':
        return False
    seen = {}
    for p in lst:
        if seen.setdefault(p.bicoords, p) != p:
            return True
    return False

def model_apply(kind, m, op):
    """The list-without-duplicates model. Returns the new list, or None when the plain
    list operation is undefined/raises or its result would not be a legal ordered set."""
    name = op[0]
    r = list(m)
    V = lambda j: val(kind, j)
    try:
        if name == 'append':
            if V(op[1]) in r: return None
            r.append(V(op[1]))
        elif name == 'add':
            if V(op[1]) not in r: r.append(V(op[1]))
        elif name == 'insert':
            if V(op[2]) in r: return None
            r.insert(op[1], V(op[2]))
        elif name == 'setitem':
            v = V(op[2])
            old = r[op[1]]
            if v in r and old != v: return None
            r[op[1]] = v
        elif name == 'delitem':
            del r[op[1]]
        elif name == 'pop':
            r.pop(op[1])
        elif name == 'remove':
            r.remove(V(op[1]))
        elif name == 'discard':
            if V(op[1]) in r: r.remove(V(op[1]))
        elif name == 'wedge':
            v, nb, rel = V(op[1]), V(op[2]), op[3]
            if v in r or nb not in r: return None
            i = r.index(nb)
            r.insert(i if rel == -1 else i + 1, v)
        elif name == 'setslice':
            r[slice(*op[1])] = [V(j) for j in op[2]]
        elif name == 'delslice':
            del r[slice(*op[1])]
        elif name == 'sort':
            r.sort(key=sortkey(kind), reverse=op[1])
        elif name == 'reverse':
            r.reverse()
        elif name == 'clear':
            r.clear()
        elif name in ('extend', 'iadd'):
            for j in op[1]:
                if V(j) in r: return None
                r.append(V(j))
        elif name in ('update', 'ior'):
            for j in op[1]:
                if V(j) not in r: r.append(V(j))
        elif name == 'iand':
            keep = [V(j) for j in op[1]]
            r = [x for x in r if x in keep]
        elif name == 'isub':
            drop = [V(j) for j in op[1]]
            r = [x for x in r if x not in drop]
        elif name in ('self_ior', 'self_iand'):
            pass                     # s |= s, s &= s : unchanged
        elif name in ('self_isub', 'self_ixor'):
            r.clear()                # s -= s, s ^= s : empty
        elif name == 'ixor':
            seen = []
            for j in op[1]:
                v = V(j)
                if v in seen: continue
                seen.append(v)
                if v in r: r.remove(v)
                else: r.append(v)
        else:
            raise KeyError(name)
    except (IndexError, ValueError):
        return None
    if has_dup(r) or conflict(kind, r):
        return None
    return r

def sortkey(kind):
    if kind == 'Predicates':
        return lambda p: p.sort_tuple
    return lambda x: x

def impl_apply(kind, c, op):
    name = op[0]
    V = lambda j: val(kind, j)
    if name == 'append': c.append(V(op[1]))
    elif name == 'add': c.add(V(op[1]))
    elif name == 'insert': c.insert(op[1], V(op[2]))
    elif name == 'setitem': c[op[1]] = V(op[2])
    elif name == 'delitem': del c[op[1]]
    elif name == 'pop': c.pop(op[1])
    elif name == 'remove': c.remove(V(op[1]))
    elif name == 'discard': c.discard(V(op[1]))
    elif name == 'wedge': c.wedge(V(op[1]), V(op[2]), op[3])
    elif name == 'setslice': c[slice(*op[1])] = [V(j) for j in op[2]]
    elif name == 'delslice': del c[slice(*op[1])]
    elif name == 'sort': c.sort(reverse=op[1])
    elif name == 'reverse': c.reverse()
    elif name == 'clear': c.clear()
    elif name == 'extend': c.extend([V(j) for j in op[1]])
    elif name == 'iadd': c += [V(j) for j in op[1]]
    elif name == 'update': c.update([V(j) for j in op[1]])
    elif name == 'ior': c |= [V(j) for j in op[1]]
    elif name == 'iand': c &= [V(j) for j in op[1]]
    elif name == 'isub': c -= [V(j) for j in op[1]]
    elif name == 'ixor': c ^= [V(j) for j in op[1]]
    elif name == 'self_ior': c |= c
    elif name == 'self_iand': c &= c
    elif name == 'self_isub': c -= c
    elif name == 'self_ixor': c ^= c
    else: raise KeyError(name)
    return c

def veto_applies(kind, poison, op, m):
    "May the injected veto legitimately reject this single-element operation?"
    if not poison or not poison[0]:
        return False
    mode, vals = poison
    vals = [val(kind, j) for j in vals]
    name = op[0]
    arriving = []
    leaving = []
    if name in ('append', 'add'): arriving = [val(kind, op[1])]
    elif name == 'insert': arriving = [val(kind, op[2])]
    elif name == 'wedge': arriving = [val(kind, op[1])]
    elif name == 'setitem':
        arriving = [val(kind, op[2])]
        try: leaving = [m[op[1]]]
        except IndexError: pass
    elif name in ('delitem', 'pop'):
        try: leaving = [m[op[1]]]
        except IndexError: pass
    elif name in ('remove', 'discard'): leaving = [val(kind, op[1])]
    if mode in ('cast', 'check'):
        # discard casts its argument too
        probe = arriving + ([val(kind, op[1])] if name == 'discard' and mode == 'cast' else [])
        return any(v in vals for v in probe)
    if mode == 'leave':
        return any(v in vals for v in leaving)
    return False

def pure_check(kind, c, op, m, uni):
    "Non-mutating operations: result is a consistent ordered set with the right members."
    name = op[0]
    if name == 'copy':
        d = c.copy()
        o = observe(kind, d, uni)
        if o['seq'] != m:
            return 'copy() iterates %r, original is %r' % (o['seq'], m)
        return consistent(kind, o, uni)
    if name == 'getslice':
        try:
            d = c[slice(*op[1])]
        except ValueError:
            return None
        exp = m[slice(*op[1])]
        if list(d) != exp:
            return 'c[%r] is %r, model %r' % (op[1], list(d), exp)
        return None
    other = [val(kind, j) for j in op[1]]
    if name == 'or': d = c | other; exp = set(m) | set(other)
    elif name == 'and': d = c & other; exp = set(m) & set(other)
    elif name == 'sub': d = c - other; exp = set(m) - set(other)
    elif name == 'xor': d = c ^ other; exp = set(m) ^ set(other)
    elif name == 'plus': d = c + other; exp = set(m) | set(other)
    got = list(d)
    if has_dup(got):
        return 'result of %s has duplicates: %r' % (name, got)
    if set(got) != exp:
        return 'result of %s has members %r, expected %r' % (name, got, sorted(exp, key=repr))
    return None

def fmt(kind, x):
    if kind == 'Predicates':
        if isinstance(x, list):
            return [fmt(kind, y) for y in x]
        return getattr(x, 'spec', x)
    return x

def execute(spec, log=None, stats=None):
    """Run a history. Returns None or (clause, opname, message, step)."""
    cur = [0, 'init']
    try:
        return _execute(spec, log, stats, cur)
    except Unobservable as e:
        return ('unobservable', cur[1], 'after %s the read API raised %s' % (cur[1], e), cur[0])

def _execute(spec, log, stats, cur):
    kind = spec['kind']
    uni = universe(kind)
    c = CLASSES[kind]()
    vetoable = kind != 'Predicates'
    if vetoable:
        c._poison = None
    m = []
    frozen = None   # (copy object, model snapshot): copies must evolve independently
    poison = None
    for step, op in enumerate(spec['ops']):
        name = op[0]
        cur[0], cur[1] = step, name
        if name == 'poison':
            if vetoable:
                poison = (op[1], op[2]) if op[1] else None
                c._poison = (op[1], [val(kind, j) for j in op[2]]) if op[1] else None
            continue
        if name in PURE:
            try:
                msg = pure_check(kind, c, op, m, uni)
            except Veto:
                msg = None
            except Exception as e:
                if name in ('or', 'and', 'sub', 'xor', 'plus') and conflict(kind, m + [val(kind, j) for j in op[1]]):
                    msg = None
                else:
                    msg = 'non-mutating %s raised %s: %s' % (name, type(e).__name__, e)
            if msg:
                return ('pure-result', name, msg, step)
            if name == 'copy':
                # fork: keep the original frozen, continue on the copy (and vice versa next time)
                d = c.copy()
                if vetoable:
                    d._poison = getattr(c, '_poison', None)
                frozen = (c, list(m))
                c = d
            after = observe(kind, c, uni)
            if after['seq'] != m:
                return ('pure-mutated', name, 'non-mutating %s changed the container: %r -> %r' % (name, fmt(kind, m), fmt(kind, after['seq'])), step)
            continue
        before = observe(kind, c, uni)
        exp = model_apply(kind, m, op)
        rejected = None
        try:
            impl_apply(kind, c, op)
        except Exception as e:
            rejected = e
        after = observe(kind, c, uni)
        if log is not None:
            log.append((step, op, type(rejected).__name__ if rejected else 'ok', fmt(kind, after['seq'])))
        if stats is not None:
            stats['ops'] += 1
            stats['op.' + name] += 1
            if rejected is not None:
                if isinstance(rejected, Veto):
                    stats['fault.veto_' + rejected.args[0][0]] += 1
                else:
                    stats['fault.raise_by_input'] += 1
        single = name in SINGLE
        cons = consistent(kind, after, uni)
        if rejected is None:
            if exp is not None:
                if after['seq'] != exp:
                    return ('state-mismatch', name, '%s accepted: container %r, model %r (before %r)' % (
                        op, fmt(kind, after['seq']), fmt(kind, exp), fmt(kind, m)), step)
                if cons:
                    return ('inconsistent', name, 'after accepted %s: %s' % (op, cons), step)
                m = exp
            else:
                # the list model has no legal result; the container accepted anyway
                if cons:
                    return ('inconsistent', name, 'after %s (no legal list result) accepted: %s' % (op, cons), step)
                if single and after != before:
                    return ('accepted-illegal', name, '%s has no legal result but changed the container: %r -> %r' % (
                        op, fmt(kind, m), fmt(kind, after['seq'])), step)
                m = after['seq']
        else:
            if single:
                if after != before:
                    diff = [k for k in after if after[k] != before[k]]
                    return ('not-atomic', name, 'single-element %s raised %s but changed %s: %r -> %r' % (
                        op, type(rejected).__name__, diff, fmt(kind, before['seq']), fmt(kind, after['seq'])), step)
                if exp is not None and not isinstance(rejected, Veto) and not veto_applies(kind, poison, op, m):
                    return ('spurious-rejection', name, '%s on %r raised %s: %s' % (
                        op, fmt(kind, m), type(rejected).__name__, rejected), step)
                if isinstance(rejected, Veto) and not veto_applies(kind, poison, op, m):
                    return ('harness', name, 'veto fired where the model says it cannot: %s %s' % (op, poison), step)
            else:
                if cons:
                    return ('inconsistent', name, 'after bulk %s raised %s: %s' % (op, type(rejected).__name__, cons), step)
                m = after['seq']
        if frozen is not None:
            fo = observe(kind, frozen[0], uni)
            if fo['seq'] != frozen[1]:
                return ('copy-shares-state', name, 'mutating a copy changed the original: %r -> %r' % (
                    fmt(kind, frozen[1]), fmt(kind, fo['seq'])), step)
            fc = consistent(kind, fo, uni)
            if fc:
                return ('copy-shares-state', name, 'original inconsistent after mutating copy: %s' % fc, step)
    return None
