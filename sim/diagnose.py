"""Root-cause diagnosis of wrong verdicts on finished tableaux, by reference semantics.

unsound(...)   : the tableau closed although R1 has a countermodel M (no witnesses needed:
                 quantifier- and modality-free steps). Finds the first step after which M
                 satisfies no branch: that rule application lost M.
incomplete(...): the tableau left an open, unflagged branch although the argument is valid.
                 Finds an expanded node that the branch's own literal valuation falsifies while
                 satisfying everything its expansion added (rule too weak), or an unexpanded
                 compound node (missing rule), or unsatisfiable literals (closure missed).

Both return a short root-cause string used in violation keys, e.g.
'rule=BiconditionalUndesignated@b3e'.
"""
from __future__ import annotations

import itertools

from pytableaux.proof.common import (AccessNode, ClosureNode, QuitFlagNode, SentenceNode)

from . import lexgen
from .ref import refsem

def rule_id(rule):
    """The class that defines the rule's expansion, as 'module.Class' -- the call site a
    root cause lives at (several registered rules may inherit one expansion)."""
    cls = type(rule)
    for k in cls.__mro__:
        if any(n in k.__dict__ for n in ('_get_sdw_targets', '_get_sd_targets', '_get_node_targets',
                                          '_get_constant_nodes', '_find_closing_node', '_branch_target_hook', '_get_targets')):
            return '%s.%s' % (k.__module__.rsplit('.', 1)[-1], k.__name__)
    return '%s.%s' % (cls.__module__.rsplit('.', 1)[-1], cls.__name__)

def node_sat(sem, model, node, frames=True):
    """Does the R1 model satisfy a node (designation marker at its world)? None = n/a.
    frames=False: ignore access nodes and evaluate every sentence node at world 0
    (diagnosis of propositional arguments, where the counter-valuation has one world)."""
    if not isinstance(node, SentenceNode):
        if isinstance(node, AccessNode) and frames:
            return (node['world1'], node['world2']) in model.R
        return None
    s = lexgen.to_ast(node['sentence'])
    w = node.get('world')
    if w is None or not frames:
        w = 0
    if w not in model.worlds:
        return False
    try:
        v = sem.eval(s, model, w)
    except KeyError:
        return False
    d = node.get('designated')
    if d is None:
        return v == 'T'
    return sem.is_designated(v) == bool(d)

def prefixes_at(tab, t):
    "Distinct branch prefixes (tuples of nodes added at step <= t)."
    seen = {}
    for b in tab:
        pre = tuple(n for n in b if getattr(n, 'step', 0) <= t)
        seen.setdefault(tuple(id(n) for n in pre), pre)
    return list(seen.values())

def unsound(sem, tab, model, frames=True):
    """First step after which `model` satisfies no branch. Returns a root-cause string."""
    def sat_branch(nodes):
        for n in nodes:
            r = node_sat(sem, model, n, frames)
            if r is False:
                return False
        return True
    nsteps = len(tab.history)
    if not any(sat_branch(p) for p in prefixes_at(tab, 0)):
        return 'trunk'
    for t in range(1, nsteps + 1):
        pres = prefixes_at(tab, t)
        if not any(sat_branch(p) for p in pres):
            entry = tab.history[t - 1]
            return 'rule=' + rule_id(entry.rule)
    # every step kept a satisfied branch: a satisfied branch was closed
    for b in tab:
        if b.closed and sat_branch(n for n in b):
            for entry in tab.history:
                if entry.target.branch is b and getattr(entry.rule, 'closure', False):
                    return 'closure=' + rule_id(entry.rule)
            return 'closure=?'
    return 'undiagnosed'

def literal_valuation(sem, branch):
    """A propositional valuation satisfying every literal node of the branch (atoms, ground
    predications and opaque sentences as cells; negation as the only operator), or None."""
    cells = {}
    def cell_of(s):
        if sem.is_opaque(s) or s[0] in ('A', 'P'):
            return s, False
        if s[0] == 'O' and s[1] == 'Negation':
            x = s[2][0]
            if sem.is_opaque(x) or x[0] in ('A', 'P'):
                return x, True
        return None, None
    cons = {}
    for n in branch:
        if not isinstance(n, SentenceNode):
            continue
        s = lexgen.to_ast(n['sentence'])
        w = n.get('world') or 0
        c, neg = cell_of(s)
        if c is None:
            continue
        cons.setdefault((w, c), []).append((neg, n.get('designated')))
    neg_fn = sem.ops['Negation']
    val = {}
    for key, lst in cons.items():
        ok = None
        # prefer the unassigned value, then the others
        for v in [sem.unassigned] + [x for x in sem.values if x != sem.unassigned]:
            good = True
            for neg, d in lst:
                vv = neg_fn(v) if neg else v
                if d is None:
                    if vv != 'T': good = False
                elif sem.is_designated(vv) != bool(d):
                    good = False
            if good:
                ok = v
                break
        if ok is None:
            return None, key
        val[key] = ok
    return val, None

def model_from_valuation(sem, branch, val):
    worlds = {0}
    R = set()
    consts = []
    for n in branch:
        if isinstance(n, AccessNode):
            R.add((n['world1'], n['world2'])); worlds.update((n['world1'], n['world2']))
        elif isinstance(n, SentenceNode):
            worlds.add(n.get('world') or 0)
            for c in refsem.constants_of(lexgen.to_ast(n['sentence'])):
                if c not in consts: consts.append(c)
    m = refsem.RModel(sorted(worlds), R, sorted(consts))
    for (w, c), v in val.items():
        if sem.is_opaque(c): m.opaque[(w, c)] = v
        elif c[0] == 'A': m.atom[(w, c)] = v
        else: m.pred[(w, c[1], c[2])] = v
    return m

def incomplete(sem, tab, branch):
    """Why is this open branch there although the argument is valid (propositional fragment)?"""
    val, bad = literal_valuation(sem, branch)
    if val is None:
        return 'closure-missed:' + shape_of_cell(bad[1])
    model = model_from_valuation(sem, branch, val)
    onb = set(id(n) for n in branch)
    # lineage of this branch
    lineage = set()
    b = branch
    while b is not None:
        lineage.add(id(b))
        b = b.parent
    expanded = {}
    for entry in tab.history:
        t = entry.target
        node = t.get('node')
        if node is not None and id(node) in onb and id(t.branch) in lineage:
            expanded.setdefault(id(node), []).append(entry)
    nodes = [n for n in branch if isinstance(n, SentenceNode)]
    # latest-added first: innermost failure
    for n in sorted(nodes, key=lambda n: -getattr(n, 'step', 0)):
        if node_sat(sem, model, n) is not False:
            continue
        s = lexgen.to_ast(n['sentence'])
        entries = expanded.get(id(n))
        if not entries:
            return 'norule:' + node_shape(n)
        entry = entries[-1]
        step = tab.history.index(entry) + 1
        added = [x for x in branch if getattr(x, 'step', None) == step]
        if all(node_sat(sem, model, x) is not False for x in added):
            return 'rule=' + rule_id(entry.rule)
    return 'undiagnosed'

def node_shape(n):
    s = lexgen.to_ast(n['sentence'])
    d = n.get('designated')
    neg = s[0] == 'O' and s[1] == 'Negation'
    inner = s[2][0] if neg else s
    kind = inner[1] if inner[0] in ('O', 'Q') else {'A': 'Atomic', 'P': 'Predicated'}[inner[0]]
    return '%s%s%s' % (kind, 'Negated' if neg else '', '' if d is None else ('Designated' if d else 'Undesignated'))

def shape_of_cell(c):
    return {'A': 'atom', 'P': 'predication'}.get(c[0], 'opaque')

# ---------------------------------------------------------------------------
# witness-aware diagnosis (modal / first-order): a branch prefix is satisfied by M if some
# assignment of the constants and worlds M does not know to constants / worlds of M makes
# every node true ("M with witnesses").

def _rename(s, cmap):
    k = s[0]
    if k == 'A':
        return s
    if k == 'P':
        return ('P', s[1], tuple(cmap.get(p, p) for p in s[2]))
    if k == 'O':
        return ('O', s[1], tuple(_rename(x, cmap) for x in s[2]))
    return ('Q', s[1], s[2], _rename(s[3], cmap))

def satisfiable_in(sem, model, nodes, cap=20000, fixed_consts=None):
    """True/False, or None if the witness space exceeds `cap`."""
    sents = []
    access = []
    newc, neww = [], []
    for n in nodes:
        if isinstance(n, ClosureNode):
            return False        # a closed branch is satisfied by nothing
        if isinstance(n, AccessNode):
            access.append((n['world1'], n['world2']))
            for w in access[-1]:
                if (w != 0 if fixed_consts is not None else w not in model.worlds) and w not in neww:
                    neww.append(w)
        elif isinstance(n, SentenceNode):
            s = lexgen.to_ast(n['sentence'])
            w = n.get('world') or 0
            sents.append((s, w, n.get('designated')))
            if (w != 0 if fixed_consts is not None else w not in model.worlds) and w not in neww:
                neww.append(w)
            for c in refsem.constants_of(s):
                if (c not in fixed_consts if fixed_consts is not None else c not in model.consts) and c not in newc:
                    newc.append(c)
    if newc and not model.consts:
        return False
    space = (len(model.consts) ** len(newc)) * (len(model.worlds) ** len(neww))
    if space > cap:
        return None
    for cs in itertools.product(model.consts, repeat=len(newc)):
        cmap = dict(zip(newc, cs))
        for ws in itertools.product(model.worlds, repeat=len(neww)):
            wmap = dict(zip(neww, ws))
            ok = True
            for (a, b) in access:
                if (wmap.get(a, a), wmap.get(b, b)) not in model.R:
                    ok = False
                    break
            if not ok:
                continue
            for s, w, d in sents:
                try:
                    v = sem.eval(_rename(s, cmap) if cmap else s, model, wmap.get(w, w))
                except KeyError:
                    ok = False
                    break
                if (v == 'T') if d is None else (sem.is_designated(v) == bool(d)):
                    continue
                ok = False
                break
            if ok:
                return True
    return False

def unsound_ext(sem, tab, model, cap=20000):
    """Like unsound(), for arguments whose proofs introduce witnesses. Only world 0 and the
    argument's own constants keep their names; every other world / constant on a branch was
    introduced by the proof and may stand for any world / constant of the model."""
    fixed = set()
    arg = tab.argument
    if arg is not None:
        for snt in arg:
            fixed |= {('c', c.index, c.subscript) for c in snt.constants}
    def sat_any(t):
        unknown = False
        for pre in prefixes_at(tab, t):
            r = satisfiable_in(sem, model, pre, cap, fixed_consts=fixed)
            if r:
                return True
            if r is None:
                unknown = True
        return None if unknown else False
    r0 = sat_any(0)
    if r0 is False:
        return 'trunk'
    if r0 is None:
        return 'undiagnosed'
    for t in range(1, len(tab.history) + 1):
        r = sat_any(t)
        if r is None:
            return 'undiagnosed'
        if r is False:
            entry = tab.history[t - 1]
            if getattr(entry.rule, 'closure', False):
                return 'closure=' + rule_id(entry.rule)
            return 'rule=' + rule_id(entry.rule)
    return 'undiagnosed'
