"""branchsim: direct histories on Branch / a rule-only tableau.

C06: append / copy(fork) histories judged by R5 (symbols actually occurring on the branch).
C05: literal constraint sets arriving in seeded orders, split across forks, judged by R1.
"""
from __future__ import annotations

import itertools

from pytableaux import _verif
from pytableaux.logics import registry
from pytableaux.proof import Branch, Tableau, anode, sdwnode
from pytableaux.proof.common import AccessNode, SentenceNode

from . import lexgen
from .ref import refsem

# ---------------------------------------------------------------------------
# C06 histories

CONST_POOL = [('c', 0, 0), ('c', 1, 0), ('c', 2, 0), ('c', 3, 0), ('c', 0, 1), ('c', 2, 1), ('c', 3, 2)]

def gen_fresh_ops(rng, n):
    """ops: ['sent', b, consts[list], world|None, designated|None] / ['access', b, w1, w2] /
    ['copy', b] / ['fork', b] (tableau-style copy with parent) -- b = branch ordinal."""
    ops = []
    nb = 1
    for _ in range(n):
        b = rng.randrange(nb)
        r = rng.random()
        if r < 0.6:
            k = rng.choice((0, 1, 1, 2, 3))
            cs = [rng.randrange(len(CONST_POOL)) for _ in range(k)]
            w = rng.choice((None, None, 0, 1, 2, 5)) if rng.random() < 0.6 else None
            ops.append(['sent', b, cs, w, rng.choice((None, True, False)), rng.random() < 0.3])
        elif r < 0.8:
            ops.append(['access', b, rng.randrange(4), rng.randrange(6)])
        elif r < 0.9:
            ops.append([rng.choice(('copy', 'fork')), b])
            nb += 1
        elif r < 0.95:
            ops.append(['new', b])
            nb += 1
        else:
            ops.append([rng.choice(('extend', 'iadd')), b, rng.randrange(1, 4)])
    return ops

def sentence_with(cs, quantified=False):
    """A sentence mentioning exactly the given constants (in that order of appearance);
    optionally quantifier-initial, the constants sitting inside the quantifier's scope."""
    if quantified:
        x = ('v', 0, 0)
        body = ('P', (0, 0, 1), (x,))
        for c in cs:
            body = ('O', 'Conjunction', (body, ('P', (1, 0, 2), (x, CONST_POOL[c]))))
        return ('Q', 'Existential', (0, 0), body)
    if not cs:
        return ('A', 0, 0)
    parts = []
    for i in range(0, len(cs), 2):
        chunk = cs[i:i + 2]
        if len(chunk) == 2:
            parts.append(('P', (1, 0, 2), (CONST_POOL[chunk[0]], CONST_POOL[chunk[1]])))
        else:
            parts.append(('P', (0, 0, 1), (CONST_POOL[chunk[0]],)))
    s = parts[0]
    for p in parts[1:]:
        s = ('O', 'Conjunction', (s, p))
    return s

def symbols_on(branch):
    consts, worlds = set(), set()
    for n in branch:
        if isinstance(n, SentenceNode):
            for c in n['sentence'].constants:
                consts.add((c.index, c.subscript))
        for k in ('world', 'world1', 'world2'):
            w = n.get(k)
            if isinstance(w, int):
                worlds.add(w)
    return consts, worlds

def check_fresh(branch):
    consts, worlds = symbols_on(branch)
    c = branch.new_constant()
    if (c.index, c.subscript) in consts:
        return 'new_constant() is %s%s, which occurs on the branch (constants there: %s)' % (
            lexgen.CONSTS[c.index], c.subscript or '', sorted(consts))
    w = branch.new_world()
    if w in worlds:
        return 'new_world() is %s, which occurs on the branch (worlds there: %s)' % (w, sorted(worlds))
    pub_c = {(x.index, x.subscript) for x in branch.constants}
    if pub_c != consts:
        return 'branch.constants %s differs from the constants occurring on it %s' % (sorted(pub_c), sorted(consts))
    if set(branch.worlds) != worlds:
        return 'branch.worlds %s differs from the worlds occurring on it %s' % (sorted(branch.worlds), sorted(worlds))
    return None

def execute_fresh(ops, log=None):
    """Returns None or (step, message)."""
    _verif.reset(0)
    branches = [Branch()]
    for step, op in enumerate(ops):
        b = branches[op[1]] if op[1] < len(branches) else branches[-1]
        if op[0] == 'sent':
            s = lexgen.build(sentence_with(op[2], len(op) > 5 and op[5]))
            b.append(sdwnode(s, op[4], op[3]))
        elif op[0] == 'access':
            b.append(anode(op[2], op[3]))
        elif op[0] == 'copy':
            branches.append(b.copy())
        elif op[0] == 'fork':
            branches.append(b.copy(parent=b))
        elif op[0] == 'new':
            branches.append(Branch())
        elif op[0] in ('extend', 'iadd'):
            # bulk extension from another Branch object (op[2] steps further in the list); a
            # refusal (e.g. a node both branches share) is the caller's problem, freshness is not
            other = branches[(op[1] + op[2]) % len(branches)]
            try:
                if op[0] == 'extend':
                    b.extend(other)
                else:
                    b += other
            except Exception:
                pass
        if log is not None:
            log.append((step, op[0], len(branches)))
        for i, br in enumerate(branches):
            msg = check_fresh(br)
            if msg:
                return step, 'after %s: branch #%d: %s' % (op, i, msg)
    return None

# ---------------------------------------------------------------------------
# C05 literal sets

def literal_universe(sem):
    """All literal constraints over one base sentence: (negated, designated, world)."""
    des = (None,) if sem.classical else (True, False)
    worlds = (0, 1, 2) if sem.modal else (None,)
    return [(neg, d, w) for neg in (False, True) for d in des for w in worlds]

def base_sentences(sem):
    out = [('atom', ('A', 0, 0)), ('pred', ('P', (0, 0, 1), (('c', 0, 0),))),
           ('atom', ('A', 2, 3)), ('pred', ('P', (1, 1, 2), (('c', 3, 2), ('c', 0, 0)))),
           # the negation as base sentence: literals not-A and not-not-A meet
           ('negation', ('O', 'Negation', (('A', 1, 0),)))]
    if not sem.modal:
        out.append(('opaque', ('O', 'Possibility', (('A', 0, 0),))))
    if not sem.quantified:
        out.append(('opaque', ('Q', 'Universal', (0, 0), ('P', (0, 0, 1), (('v', 0, 0),)))))
    return out

def gen_literal_case(rng, sem):
    kind, s = rng.choice(base_sentences(sem))
    uni = literal_universe(sem)
    k = rng.randrange(1, min(len(uni), 4) + 1)
    lits = rng.sample(uni, k)
    if rng.random() < 0.2:
        lits.append(rng.choice(lits))            # equal-content duplicate node
    extra = []
    if sem.classical and rng.random() < 0.5:
        c = ('c', rng.randrange(2), 0)
        which = rng.choice(('self-id', 'neg-self-id', 'exists', 'neg-exists', 'neg-other-id'))
        w = 0 if sem.modal else None
        if which == 'self-id': extra.append([lexgen.to_json(('P', refsem.IDENTITY, (c, c))), None, w])
        elif which == 'neg-self-id': extra.append([lexgen.to_json(('O', 'Negation', (('P', refsem.IDENTITY, (c, c)),))), None, w])
        elif which == 'exists': extra.append([lexgen.to_json(('P', refsem.EXISTENCE, (c,))), None, w])
        elif which == 'neg-exists': extra.append([lexgen.to_json(('O', 'Negation', (('P', refsem.EXISTENCE, (c,)),))), None, w])
        else: extra.append([lexgen.to_json(('O', 'Negation', (('P', refsem.IDENTITY, (c, ('c', 3, 0))),))), None, w])
    nodes = []
    for neg, d, w in lits:
        x = ('O', 'Negation', (s,)) if neg else s
        nodes.append([lexgen.to_json(x), d, w])
    nodes += extra
    rng.shuffle(nodes)
    split = rng.randrange(1, len(nodes) + 1) if rng.random() < 0.4 else None     # the parent keeps >= 1 node
    if split is not None and not satisfiable(sem, nodes[:split])[0]:
        # a branch that can already close is never expanded (closure rules come first), so a
        # fork of such a branch is not a history the prover can produce
        split = None
    return dict(logic=sem.name, kind=kind, nodes=nodes, split=split, order_seed=rng.choice((0, rng.getrandbits(32))))

def literal_case_count(sem):
    uni = 2 if sem.classical else 4
    return len(base_sentences(sem)) * (2 ** uni - 1)

def enum_literal_case(rng, sem, e):
    """e-th member of the enumeration (base sentence x non-empty subset of the literal constraints
    at one world); arrival order, world and fork point are seeded."""
    bases = base_sentences(sem)
    kind, s = bases[e % len(bases)]
    w = rng.choice((0, 0, 1, 2)) if sem.modal else None
    uni = [(neg, d) for neg in (False, True) for d in ((None,) if sem.classical else (True, False))]
    mask = (e // len(bases)) % (2 ** len(uni) - 1) + 1
    nodes = []
    for i, (neg, d) in enumerate(uni):
        if mask >> i & 1:
            nodes.append([lexgen.to_json(('O', 'Negation', (s,)) if neg else s), d, w])
    rng.shuffle(nodes)
    split = rng.randrange(1, len(nodes) + 1) if rng.random() < 0.3 else None
    if split is not None and not satisfiable(sem, nodes[:split])[0]:
        split = None
    return dict(logic=sem.name, kind=kind, nodes=nodes, split=split, order_seed=rng.choice((0, rng.getrandbits(32))))

def satisfiable(sem, nodes):
    """R1: is there, per (base sentence, world), a value meeting every constraint? Classical
    self-identity / existence literals are judged by their fixed values."""
    neg = sem.ops['Negation']
    groups = {}
    for sj, d, w in nodes:
        s = lexgen.from_json(sj)
        n = 0
        while s[0] == 'O' and s[1] == 'Negation' and not sem.is_opaque(s):
            s, n = s[2][0], n + 1
        if sem.classical and s[0] == 'P' and s[1] in (refsem.IDENTITY, refsem.EXISTENCE):
            if s[1] == refsem.EXISTENCE or s[2][0] == s[2][1]:
                if n % 2:        # not a=a, not !a : unsatisfiable
                    return False, None
                continue
        groups.setdefault((s, w), []).append((n, d))
    def negk(v, k):
        for _ in range(k):
            v = neg(v)
        return v
    def ok(v, cons):
        for k, d in cons:
            vv = negk(v, k)
            if d is None:
                if vv != 'T': return False
            elif sem.is_designated(vv) != bool(d):
                return False
        return True
    chosen = {}
    for key, cons in groups.items():
        allowed = [v for v in sem.values if ok(v, cons)]
        if not allowed:
            return False, key
        chosen[key] = allowed
    return True, chosen

def execute_literals(spec):
    """Build a rule-only tableau over the literal nodes. Returns (verdict|None, info)."""
    sem = refsem.get(spec['logic'])
    _verif.reset(spec.get('order_seed', 0))
    # (step limit: without a trunk there is no world projection, and the serial rule would
    #  alternate between forked branches forever; closures come first in every step anyway)
    tab = Tableau(spec['logic'], max_steps=60)
    b = tab.branch()
    nodes = spec['nodes']
    split = spec.get('split')
    def add(br, item):
        sj, d, w = item
        br.append(sdwnode(lexgen.build(lexgen.from_json(sj)), d, w))
    target = b
    for i, item in enumerate(nodes):
        if split is not None and i == split:
            target = tab.branch(b)            # fork: the rest arrives on the copy only
            # like a real fork, the parent side gets a node of its own (an unrelated letter), so
            # that no branch is a strict prefix of two others (the tree builder assumes that)
            add(b, [lexgen.to_json(('A', 4, 7)), None if sem.classical else True, nodes[0][2]])
        add(target, item)
    try:
        tab.build()
    except Exception as e:
        return ('build-raises', 'building over the literal set %s raised %s: %s' % (show(nodes), type(e).__name__, e)), dict(
            steps=len(tab.history), branches=len(tab), closed=[br.closed for br in tab], sat=None)
    full = [br for br in tab if br is target or _descends(br, target)]
    fams = [(nodes, full)]
    if split is not None and 0 < split:
        fams.append((nodes[:split], [br for br in tab if (br is b or _descends(br, b)) and not any(br is x for x in full)]))
    info = dict(steps=len(tab.history), branches=len(tab), closed=[br.closed for br in tab], sat=None)
    L = registry(spec['logic'])
    for subset, fam in fams:
        if not fam or not subset:
            continue
        sat, detail = satisfiable(sem, subset)
        if info['sat'] is None:
            info['sat'] = sat
        all_closed = all(br.closed for br in fam)
        if not sat and not all_closed:
            return ('open-unsatisfiable', 'literal set %s is unsatisfiable%s but a branch stays open' % (
                show(subset), '' if detail is None else ' (no value for %s at world %s)' % (lexgen.polish(detail[0]), detail[1]))), info
        if sat and all_closed:
            return ('closed-satisfiable', 'literal set %s is satisfiable (%s) but every branch closed (closing rules applied: %s)' % (
                show(subset), {lexgen.polish(k[0]) + ('@w%s' % k[1] if k[1] is not None else ''): v for k, v in detail.items()},
                sorted({e.rule.name for e in tab.history if getattr(e.rule, 'closure', False)}))), info
        if sat:
            # the value the model builder reads off an open literal set satisfies all of them
            for br in fam:
                if br.closed:
                    continue
                m = L.Model()
                try:
                    m.read_branch(br)
                except Exception as e:
                    return ('model-raises', 'reading the open literal set %s raised %s: %s' % (show(subset), type(e).__name__, e)), info
                for (s_, w), allowed in detail.items():
                    kw = {} if w is None else dict(world=w)
                    try:
                        v = str(m.value_of(lexgen.build(s_), **kw))
                    except Exception as e:
                        return ('model-raises', 'value_of(%s) raised %s' % (lexgen.polish(s_), type(e).__name__)), info
                    if v not in allowed:
                        return ('read-off', 'open literal set %s: model builder gives %s the value %s, which does not satisfy them (satisfying values: %s)' % (
                            show(subset), lexgen.polish(s_), v, allowed)), info
    return None, info

def _descends(br, anc):
    p = br.parent
    while p is not None:
        if p is anc:
            return True
        p = p.parent
    return False

def show(nodes):
    return [lexgen.polish(lexgen.from_json(sj)) + ('' if d is None else ' +' if d else ' -') + ('' if w is None else ' w%s' % w) for sj, d, w in nodes]

# ---------------------------------------------------------------------------
# C05 interleaved histories: padding, forks with both sides receiving later nodes, step() calls
# between arrivals (a second root branch carries pending work so that a step does not finish
# the tableau)

def gen_interleaved_case(rng, sem):
    base = gen_literal_case(rng, sem)
    nodes = base['nodes']
    w0 = nodes[0][2]
    des = None if sem.classical else True
    pad = rng.choice((0, 0, 3, 6, 7, 10))
    pads = [[lexgen.to_json(('A', 3, 20 + i)), des, w0] for i in range(pad)]
    work = rng.choice((0, 2, 4, 6))
    events = []
    nb = 1
    live_sets = {0: list(pads)}            # branch ordinal -> delivered literal items
    forked = False
    fresh_fork = None
    for i, item in enumerate(nodes):
        if work and rng.random() < 0.25:
            events.append(['step'])
        cur = 0
        if not forked and i >= 1 and rng.random() < 0.35 and satisfiable(sem, live_sets[0])[0]:
            # (a manual fork after step() calls is not a history the prover produces: the helpers'
            #  cached targets are copied to the fork and still point at the parent)
            events[:] = [e for e in events if e[0] != 'step']
            events.append(['fork', 0])
            live_sets[nb] = list(live_sets[0])
            fresh_fork = nb
            nb += 1
            forked = True
            # the parent side gets a node of its own first (as in a real fork)
            events.append(['filler', 0])
        if forked:
            cur = fresh_fork if rng.random() < 0.6 else 0
        events.append(['add', cur, i])
        live_sets[cur].append(item)
    if forked and not any(e[0] == 'add' and e[1] == fresh_fork for e in events):
        events.append(['filler', fresh_fork])
    if work and rng.random() < 0.5:
        events.append(['step'])
    return dict(logic=sem.name, kind=base['kind'], nodes=nodes, pads=pads, work=work, events=events,
                order_seed=base['order_seed'], interleaved=True)

def execute_interleaved(spec):
    """Returns (verdict|None, info). Per-branch oracle: a closed branch's own nodes are jointly
    unsatisfiable; after a completed build an open branch's own nodes are jointly satisfiable."""
    sem = refsem.get(spec['logic'])
    _verif.reset(spec.get('order_seed', 0))
    tab = Tableau(spec['logic'], max_steps=60)
    branches = [tab.branch()]
    nodes = spec['nodes']
    des = None if sem.classical else True
    w0 = nodes[0][2] if nodes else None
    def add(br, item):
        sj, d, w = item
        br.append(sdwnode(lexgen.build(lexgen.from_json(sj)), d, w))
    for item in spec.get('pads', ()):
        add(branches[0], item)
    if spec.get('work'):
        other = tab.branch()
        s = ('A', 4, 9)
        for _ in range(spec['work']):
            s = ('O', 'Negation', (s,))
        add(other, [lexgen.to_json(s), des, w0])
    nfill = [0]
    info = dict(steps=0, branches=0, closed=[], sat=None, stepped=0, dropped=0)
    try:
        for ev in spec['events']:
            if tab.finished:
                info['dropped'] += 1
                continue
            if ev[0] == 'step':
                tab.step()
                info['stepped'] += 1
            elif ev[1] >= len(branches):
                info['dropped'] += 1         # (a minimised history may have lost the fork)
            elif ev[0] == 'fork':
                if any(e[0] == 'step' for e in spec['events'][:spec['events'].index(ev)]):
                    info['dropped'] += 1
                    branches.append(None)
                elif branches[ev[1]] is None or branches[ev[1]].closed:
                    branches.append(None)
                else:
                    branches.append(tab.branch(branches[ev[1]]))
            else:
                br = branches[ev[1]]
                if br is None or br.closed:
                    info['dropped'] += 1
                    continue
                if ev[0] == 'filler':
                    nfill[0] += 1
                    add(br, [lexgen.to_json(('A', 4, 30 + nfill[0])), des, w0])
                else:
                    add(br, nodes[ev[2]])
        tab.build()
    except Exception as e:
        return ('build-raises', 'interleaved history over %s raised %s: %s' % (show(nodes), type(e).__name__, e)), info
    info.update(steps=len(tab.history), branches=len(tab), closed=[br.closed for br in tab])
    for br in tab:
        items = [[lexgen.to_json(lexgen.to_ast(n['sentence'])), n.get('designated'), n.get('world')] for n in br if isinstance(n, SentenceNode)]
        sat, detail = satisfiable(sem, items)
        if br.closed and sat:
            return ('closed-satisfiable', 'a branch holding %s closed although these nodes are jointly satisfiable (history: %s)' % (
                show(items)[-6:], spec['events'])), info
        if not br.closed and not sat and not tab.premature:
            return ('open-unsatisfiable', 'a branch holding %s stays open after a completed build although no value satisfies %s at world %s (history: %s)' % (
                show(items)[-6:], lexgen.polish(detail[0]) if detail else '?', detail[1] if detail else '?', spec['events'])), info
    return None, info
