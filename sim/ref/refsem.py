"""R1 — independent reference semantics for all registered logics (DESIGN.md §4, Appendix A).

Does not import pytableaux. Sentences are nested tuples:

    ('A', index, subscript)                          sentence letter
    ('P', (index, subscript, arity), (param, ...))    predication; param = ('c'|'v', index, subscript)
    ('O', operator_name, (operand, ...))              operated
    ('Q', quantifier_name, (vindex, vsub), body)      quantified

Identity is predicate (-1, 0, 2), Existence (-2, 0, 1).
Values are the one-letter names 'F','N','B','T'.
"""
from __future__ import annotations

import itertools
from functools import lru_cache

IDENTITY = (-1, 0, 2)
EXISTENCE = (-2, 0, 1)

BINARY = ('Conjunction', 'Disjunction', 'MaterialConditional', 'MaterialBiconditional',
          'Conditional', 'Biconditional')
UNARY = ('Assertion', 'Negation')
MODAL = ('Possibility', 'Necessity')
OPERATORS = UNARY + BINARY + MODAL

# ---------------------------------------------------------------------------
# primitive tables per base family

def _linear(order):
    rank = {v: i for i, v in enumerate(order)}
    return (lambda a, b: a if rank[a] <= rank[b] else b), (lambda a, b: a if rank[a] >= rank[b] else b)

def _neg_std(a):
    return {'F': 'T', 'T': 'F'}.get(a, a)

def _family(base):
    """Returns dict(values, designated, unassigned, ops{name: fn}) for a base (non-modal) logic."""
    f = {}
    if base in ('CPL', 'CFOL'):
        vals, des, un = 'FT', 'T', 'F'
    elif base in ('FDE',):
        vals, des, un = 'FNBT', 'BT', 'N'
    elif base in ('LP', 'RM3', 'NH'):
        vals, des, un = 'FBT', 'BT', 'F'
    else:
        vals, des, un = 'FNT', 'T', 'N'
    mn, mx = _linear(vals)
    neg = _neg_std
    asrt = lambda a: a
    conj, disj = mn, mx
    cond = bicond = None
    if base == 'FDE':
        # Belnap-Dunn lattice: N and B incomparable; meet(N,B)=F, join(N,B)=T
        def conj(a, b):
            if {a, b} == {'N', 'B'}: return 'F'
            return mn(a, b)
        def disj(a, b):
            if {a, b} == {'N', 'B'}: return 'T'
            return mx(a, b)
    elif base in ('K3W', 'K3WQ', 'B3E'):
        def conj(a, b):
            return 'N' if 'N' in (a, b) else mn(a, b)
        def disj(a, b):
            return 'N' if 'N' in (a, b) else mx(a, b)
        if base == 'B3E':
            asrt = lambda a: 'T' if a == 'T' else 'F'
            cond = lambda a, b: disj(neg(asrt(a)), asrt(b))
    elif base == 'G3':
        neg = lambda a: 'T' if a == 'F' else 'F'
        rank = {'F': 0, 'N': 1, 'T': 2}
        cond = lambda a, b: 'T' if rank[a] <= rank[b] else b
    elif base == 'L3':
        num = {'F': 0, 'N': 1, 'T': 2}
        inv = 'FNT'
        cond = lambda a, b: inv[min(2, 2 - num[a] + num[b])]
    elif base == 'RM3':
        rank = {'F': 0, 'B': 1, 'T': 2}
        def cond(a, b):
            if rank[a] > rank[b]: return 'F'
            if a == b == 'B': return 'B'
            return 'T'
    elif base == 'MH':
        def disj(a, b):
            if a == b == 'N': return 'F'
            return mx(a, b)
        cond = lambda a, b: 'F' if (a == 'T' and b != 'T') else 'T'
    elif base == 'NH':
        def conj(a, b):
            if a == b == 'B': return 'T'
            return mn(a, b)
        cond = lambda a, b: 'F' if (a != 'F' and b == 'F') else 'T'
    elif base == 'GO':
        asrt = lambda a: 'T' if a == 'T' else 'F'
        conj = lambda a, b: mn(asrt(a), asrt(b))
        disj = lambda a, b: mx(asrt(a), asrt(b))
    elif base == 'P3':
        neg = lambda a: {'F': 'T', 'N': 'F', 'T': 'N'}[a]
        conj = lambda a, b: neg(mx(neg(a), neg(b)))
    mcond = lambda a, b: disj(neg(a), b)
    if base == 'GO':
        cond = lambda a, b: 'T' if a == b else mcond(a, b)
    mbicond = lambda a, b: conj(mcond(a, b), mcond(b, a))
    if cond is None:
        cond = mcond
    bicond = lambda a, b: conj(cond(a, b), cond(b, a))
    ops = dict(Assertion=asrt, Negation=neg, Conjunction=conj, Disjunction=disj,
               MaterialConditional=mcond, MaterialBiconditional=mbicond,
               Conditional=cond, Biconditional=bicond)
    return dict(values=vals, designated=des, unassigned=un, ops=ops, mn=mn, mx=mx)

BASES = ('CPL', 'CFOL', 'FDE', 'K3', 'LP', 'L3', 'RM3', 'K3W', 'K3WQ', 'B3E', 'G3', 'MH', 'NH', 'GO', 'P3')
CLASSICAL_MODAL = {'K': 'K', 'D': 'D', 'T': 'T', 'S4': 'S4', 'S5': 'S5'}
UNQUANTIFIED = ('CPL', 'P3')

def parse_name(name):
    "-> (base, frame or None)"
    name = name.upper()
    if name in BASES:
        return name, None
    if name in CLASSICAL_MODAL:
        return 'CFOL', CLASSICAL_MODAL[name]
    for pre in ('S4', 'S5', 'K', 'T', 'D'):
        if name.startswith(pre) and name[len(pre):] in BASES:
            return name[len(pre):], pre
    raise KeyError(name)

class Sem:
    def __init__(self, name):
        self.name = name.upper()
        self.base, self.frame = parse_name(name)
        fam = _family(self.base)
        self.values = fam['values']
        self.designated = fam['designated']
        self.unassigned = fam['unassigned']
        self.ops = fam['ops']
        self.modal = self.frame is not None
        self.quantified = self.base not in UNQUANTIFIED
        self.classical = self.base in ('CPL', 'CFOL')
        self.bottom = self.values[0]
        self.top = self.values[-1]
        conj, disj = self.ops['Conjunction'], self.ops['Disjunction']
        asrt = self.ops['Assertion']
        base = self.base
        # generalised disjunction / conjunction for quantifiers
        def fold(fn, init):
            def g(vals):
                acc = init
                for v in vals:
                    acc = fn(acc, v)
                return acc
            return g
        gor = fold(disj, self.bottom)
        gand = fold(conj, self.top)
        if base in ('K3W', 'B3E'):
            # weak connectives, but quantifiers / modal operators are max / min in the order F<N<T
            # (only K3WQ generalises the weak connectives)
            gor = fold(fam['mx'], self.bottom)
            gand = fold(fam['mn'], self.top)
        if base == 'MH':
            def q_or(vals):
                s = set(vals)
                if 'T' in s: return 'T'
                if len(s) > 1: return 'N'
                return 'F'
            q_and = gand
        elif base == 'NH':
            def q_and(vals):
                s = set(vals)
                if 'F' in s: return 'F'
                if len(s) > 1: return 'B'
                return 'T'
            q_or = gor
        elif base == 'GO':
            q_or = lambda vals: gor([asrt(v) for v in vals])
            q_and = lambda vals: gand([asrt(v) for v in vals])
        else:
            q_or, q_and = gor, gand
        self.q_or, self.q_and = q_or, q_and
        # modal operators: same generalisation over accessible worlds where the logic
        # documents one (K3WQ family: weak; GO: crunched), otherwise join/meet.
        self.m_or, self.m_and = q_or, q_and
        if base in ('MH', 'NH'):
            self.m_or, self.m_and = gor, gand

    def is_designated(self, v):
        return v in self.designated

    def table(self, opname):
        fn = self.ops[opname]
        n = 1 if opname in UNARY else 2
        return ''.join(fn(*t) for t in itertools.product(self.values, repeat=n))

    # -- frames
    def frame_ok(self, worlds, R):
        fr = self.frame
        if fr in (None, 'K'):
            return True
        if fr == 'D':
            return all(any((w, v) in R for v in worlds) for w in worlds)
        if fr in ('T', 'S4', 'S5'):
            if not all((w, w) in R for w in worlds):
                return False
        if fr in ('S4', 'S5'):
            for (a, b) in R:
                for (c, d) in R:
                    if b == c and (a, d) not in R:
                        return False
        if fr == 'S5':
            if not all((b, a) in R for (a, b) in R):
                return False
        return True

    def frame_closure(self, worlds, R):
        "Least relation containing R with the frame condition (not defined for D: see serial())."
        R = set(R)
        fr = self.frame
        if fr in ('T', 'S4', 'S5'):
            R |= {(w, w) for w in worlds}
        changed = fr in ('S4', 'S5')
        while changed:
            changed = False
            if fr == 'S5':
                for (a, b) in list(R):
                    if (b, a) not in R:
                        R.add((b, a)); changed = True
            for (a, b) in list(R):
                for (c, d) in list(R):
                    if b == c and (a, d) not in R:
                        R.add((a, d)); changed = True
        return R

    # -- opaque sentences
    def is_opaque(self, s):
        if s[0] == 'Q' and not self.quantified:
            return True
        if s[0] == 'O' and s[1] in MODAL and not self.modal:
            return True
        return False

    # -- evaluation
    def eval(self, s, model, w=0):
        if self.is_opaque(s):
            return model.opaque.get((w, s), self.unassigned)
        k = s[0]
        if k == 'A':
            return model.atom.get((w, s), self.unassigned)
        if k == 'P':
            return model.pred_value(self, w, s[1], s[2])
        if k == 'O':
            op = s[1]
            if op in MODAL:
                vals = [self.eval(s[2][0], model, v) for v in model.succ(w)]
                return self.m_or(vals) if op == 'Possibility' else self.m_and(vals)
            return self.ops[op](*[self.eval(x, model, w) for x in s[2]])
        if k == 'Q':
            vals = [self.eval(subst(s[3], ('v',) + tuple(s[2]), c), model, w) for c in model.consts]
            return self.q_or(vals) if s[1] == 'Existential' else self.q_and(vals)
        raise ValueError(s)

    def is_countermodel(self, model, premises, conclusion):
        return (all(self.is_designated(self.eval(p, model, 0)) for p in premises)
                and not self.is_designated(self.eval(conclusion, model, 0)))

@lru_cache(maxsize=None)
def get(name):
    return Sem(name)

# ---------------------------------------------------------------------------
# sentence helpers

def subst(s, old, new):
    k = s[0]
    if k == 'A':
        return s
    if k == 'P':
        return ('P', s[1], tuple(new if p == old else p for p in s[2]))
    if k == 'O':
        return ('O', s[1], tuple(subst(x, old, new) for x in s[2]))
    if k == 'Q':
        if ('v',) + tuple(s[2]) == old:
            return s
        return ('Q', s[1], s[2], subst(s[3], old, new))
    raise ValueError(s)

def walk(s):
    yield s
    if s[0] == 'O':
        for x in s[2]:
            yield from walk(x)
    elif s[0] == 'Q':
        yield from walk(s[3])

def constants_of(s):
    out = []
    for x in walk(s):
        if x[0] == 'P':
            for p in x[2]:
                if p[0] == 'c' and p not in out:
                    out.append(p)
    return out

def is_propositional(s):
    "No quantifier, no modal operator anywhere (predications allowed: they are ground)."
    return all(not (x[0] == 'Q' or (x[0] == 'O' and x[1] in MODAL)) for x in walk(s))

def has_modal(s):
    return any(x[0] == 'O' and x[1] in MODAL for x in walk(s))

def has_quant(s):
    return any(x[0] == 'Q' for x in walk(s))

def size(s):
    return sum(1 for _ in walk(s))

# ---------------------------------------------------------------------------
# models

class RModel:
    """A finished interpretation. atom[(w, ('A',i,s))], pred[(w, predkey, (const,...))],
    opaque[(w, sentence)] hold values; anything absent has the logic's unassigned value."""

    def __init__(self, worlds=(0,), R=(), consts=()):
        self.worlds = list(worlds)
        self.R = set(R)
        self.consts = list(consts)
        self.atom = {}
        self.pred = {}
        self.opaque = {}
        self._succ = None

    def succ(self, w):
        if self._succ is None:
            d = {}
            for (a, b) in sorted(self.R):
                d.setdefault(a, []).append(b)
            self._succ = d
        return self._succ.get(w, ())

    def pred_value(self, sem, w, pk, params):
        for p in params:
            if p[0] != 'c':
                raise ValueError('free variable in evaluation')
            if p not in self.consts:
                raise KeyError('constant %r not in the model' % (p,))
        return self.pred.get((w, pk, tuple(params)), sem.unassigned)

    def describe(self):
        return dict(worlds=self.worlds, R=sorted(self.R), consts=[list(c) for c in self.consts],
            atoms=sorted((w, a[1], a[2], v) for (w, a), v in self.atom.items()),
            preds=sorted((w, list(pk), [list(p) for p in ps], v) for (w, pk, ps), v in self.pred.items()),
            opaques=sorted((w, repr(s), v) for (w, s), v in self.opaque.items()))

def classical_complete(sem, model):
    """Classical-family completion from the facts given so far: per world, identity becomes the
    least equivalence containing the T identity facts, every predicate's extension is closed
    under it, self-identity and existence hold of every constant."""
    consts = model.consts
    for w in model.worlds:
        parent = {c: c for c in consts}
        def find(c):
            while parent[c] != c:
                parent[c] = parent[parent[c]]
                c = parent[c]
            return c
        for (ww, pk, ps), v in list(model.pred.items()):
            if ww == w and pk == IDENTITY and v == 'T':
                a, b = find(ps[0]), find(ps[1])
                if a != b:
                    parent[max(a, b)] = min(a, b)
        cls = {}
        for c in consts:
            cls.setdefault(find(c), []).append(c)
        for (ww, pk, ps), v in list(model.pred.items()):
            if ww != w or v != 'T':
                continue
            for alt in itertools.product(*[cls[find(p)] for p in ps]):
                model.pred[(w, pk, tuple(alt))] = 'T'
        for a in consts:
            model.pred[(w, EXISTENCE, (a,))] = 'T'
            for b in cls[find(a)]:
                model.pred[(w, IDENTITY, (a, b))] = 'T'
    return model

# ---------------------------------------------------------------------------
# bounded countermodel search

def _cells(sem, sentences, worlds, consts):
    """The cells (atom / ground predication / opaque subsentence per world) whose values can
    matter to the given sentences."""
    atoms, preds, opaques = [], [], []
    def visit(s):
        if sem.is_opaque(s):
            if s not in opaques: opaques.append(s)
            return
        k = s[0]
        if k == 'A':
            if s not in atoms: atoms.append(s)
        elif k == 'P':
            if s[1] not in preds: preds.append(s[1])
        elif k == 'O':
            for x in s[2]: visit(x)
        elif k == 'Q':
            # opaque instances can arise after substitution as well; collect on the body
            visit(s[3])
    for s in sentences:
        visit(s)
    cells = []
    for w in worlds:
        for a in atoms:
            cells.append(('a', w, a))
        for o in opaques:
            # a closed opaque sentence only; instances of open ones are handled lazily (unassigned)
            if not _free_vars(o):
                cells.append(('o', w, o))
        for pk in preds:
            if sem.classical and pk in (IDENTITY, EXISTENCE):
                continue
            for tup in itertools.product(consts, repeat=pk[2]):
                cells.append(('p', w, pk, tup))
    return cells, preds

def _free_vars(s, bound=()):
    k = s[0]
    if k == 'A': return set()
    if k == 'P': return {p for p in s[2] if p[0] == 'v' and p not in bound}
    if k == 'O':
        out = set()
        for x in s[2]: out |= _free_vars(x, bound)
        return out
    if k == 'Q':
        return _free_vars(s[3], bound + (('v',) + tuple(s[2]),))
    return set()

def _frames(sem, n, rng, limit):
    worlds = list(range(n))
    pairs = [(a, b) for a in worlds for b in worlds]
    if not sem.modal:
        yield worlds, set()
        return
    if len(pairs) <= 9:
        # every frame on <= 3 worlds that meets the frame condition, sparse ones first
        frames = []
        for bits in itertools.product((0, 1), repeat=len(pairs)):
            R = {p for p, b in zip(pairs, bits) if b}
            if sem.frame_ok(worlds, R):
                frames.append(R)
        frames.sort(key=lambda R: (len(R), sorted(R)))
        if len(frames) > limit:
            # keep the sparsest third, sample the rest
            keep = frames[:limit // 3]
            rest = frames[limit // 3:]
            rng.shuffle(rest)
            frames = keep + rest[:limit - len(keep)]
        for R in frames:
            yield worlds, R
        return
    seen = set()
    tries = 0
    while len(seen) < limit and tries < limit * 6:
        tries += 1
        dens = rng.choice((0.2, 0.4, 0.6))
        R = {p for p in pairs if rng.random() < dens}
        if sem.frame == 'D':
            for w in worlds:
                if not any((w, v) in R for v in worlds):
                    R.add((w, rng.choice(worlds)))
        else:
            R = sem.frame_closure(worlds, R)
        key = frozenset(R)
        if key in seen or not sem.frame_ok(worlds, R):
            continue
        seen.add(key)
        yield worlds, R

def find_countermodel(sem, premises, conclusion, rng, budget=4000, max_worlds=3, extra_consts=1, frame_limit=400):
    """Bounded search. Returns (RModel, stats) with a *verified* countermodel or (None, stats).
    stats['exhaustive'] is True when the explored space covered every interpretation over the
    chosen frame sizes / domain (propositional arguments: the whole valuation space)."""
    sents = list(premises) + [conclusion]
    argconsts = []
    for s in sents:
        for c in constants_of(s):
            if c not in argconsts: argconsts.append(c)
    quant = any(has_quant(s) for s in sents) and sem.quantified
    modal = any(has_modal(s) for s in sents) and sem.modal
    const_sets = [list(argconsts)]
    if quant or not argconsts:
        base = list(argconsts)
        nxt = 0
        extras = []
        while len(extras) < extra_consts + (0 if argconsts else 1):
            c = ('c', nxt % 4, nxt // 4)
            nxt += 1
            if c not in base and c not in extras:
                extras.append(c)
        const_sets = []
        if argconsts:
            const_sets.append(list(argconsts))
        for k in range(1, len(extras) + 1):
            const_sets.append(base + extras[:k])
    if not quant and not any(x[0] == 'P' for s in sents for x in walk(s)):
        const_sets = [[]]
    sizes = range(1, (max_worlds if modal else 1) + 1)
    stats = dict(models=0, exhaustive=True)
    per = max(50, budget // max(1, len(const_sets) * len(list(sizes))))
    for consts in const_sets:
        for n in sizes:
            frames = list(_frames(sem, n, rng, 12 if n > 3 else frame_limit))
            if n > 2 and sem.modal and len(frames) >= frame_limit:
                stats['exhaustive'] = False
            share = max(20, per // max(1, len(frames)))
            for worlds, R in frames:
                cells, preds = _cells(sem, sents, worlds, consts)
                # classical identity: choose, per world, a partition of the constants
                idparts = [None]
                use_id = sem.classical and any(pk == IDENTITY for pk in preds) and len(consts) > 1
                space = len(sem.values) ** len(cells)
                exhaustive = space <= share and not use_id
                if exhaustive:
                    assigns = itertools.product(sem.values, repeat=len(cells))
                else:
                    stats['exhaustive'] = False
                    def sampler():
                        for _ in range(share):
                            bias = rng.random()
                            if bias < 0.3:
                                yield tuple(rng.choice(sem.values) for _ in cells)
                            else:
                                # sparse assignments: mostly the unassigned value
                                p = rng.choice((0.2, 0.5))
                                yield tuple(rng.choice(sem.values) if rng.random() < p else sem.unassigned for _ in cells)
                    assigns = sampler()
                for vals in assigns:
                    m = RModel(worlds, R, consts)
                    for cell, v in zip(cells, vals):
                        if cell[0] == 'a': m.atom[(cell[1], cell[2])] = v
                        elif cell[0] == 'o': m.opaque[(cell[1], cell[2])] = v
                        else: m.pred[(cell[1], cell[2], cell[3])] = v
                    if sem.classical:
                        if use_id:
                            for w in worlds:
                                for a in consts:
                                    for b in consts:
                                        if a < b and rng.random() < 0.35:
                                            m.pred[(w, IDENTITY, (a, b))] = 'T'
                        classical_complete(sem, m)
                    stats['models'] += 1
                    try:
                        if sem.is_countermodel(m, premises, conclusion):
                            return m, stats
                    except KeyError:
                        continue
    return None, stats

def truth_table_valid(sem, premises, conclusion, max_cells=7):
    """Exact decision for propositional arguments (no interpreted quantifier/modal operator):
    returns (valid: bool, countervaluation or None), or (None, None) if too many cells."""
    sents = list(premises) + [conclusion]
    consts = []
    for s in sents:
        for c in constants_of(s):
            if c not in consts: consts.append(c)
    # ground predications and opaque subsentences behave as atoms
    cells = []
    def visit(s):
        if sem.is_opaque(s) or s[0] in ('A', 'P'):
            if s not in cells: cells.append(s)
            return
        if s[0] == 'O':
            for x in s[2]: visit(x)
        else:
            raise ValueError('not propositional: %r' % (s,))
    for s in sents:
        visit(s)
    if len(cells) > max_cells:
        return None, None
    if sem.classical and any(c[0] == 'P' and c[1] in (IDENTITY, EXISTENCE) for c in cells):
        return None, None
    for vals in itertools.product(sem.values, repeat=len(cells)):
        m = RModel((0,), set(), consts)
        for c, v in zip(cells, vals):
            if sem.is_opaque(c): m.opaque[(0, c)] = v
            elif c[0] == 'A': m.atom[(0, c)] = v
            else: m.pred[(0, c[1], c[2])] = v
        if sem.is_countermodel(m, premises, conclusion):
            return False, m
    return True, None
